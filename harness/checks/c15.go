package checks

import (
	"bytes"
	"context"
	"fmt"
	"io"
	"net"
	"sort"
	"strings"
	"time"

	"github.com/gammazero/nexus/v3/router"
	"github.com/gammazero/nexus/v3/transport"
	"github.com/gammazero/nexus/v3/transport/serialize"
	"github.com/gammazero/nexus/v3/wamp"

	"verif/harness/canon"
	"verif/harness/model"
	"verif/harness/sim"
)

// C15 — transports frame messages faithfully and are interchangeable.

const (
	c15ServerHS = 12 // cases of kind A (server handshake table, exhaustive in 12 chunks)
	c15ClientHS = 6  // kind B (client handshake table over loopback TCP)
)

func init() {
	register(&Prop{
		ID: "C15",
		Cases: func(tier string) int {
			if tier == "thorough" {
				return c15ServerHS + c15ClientHS + 2000
			}
			return c15ServerHS + c15ClientHS + 270
		},
		Batch: func(tier string) int {
			if tier == "thorough" {
				return 100
			}
			return 18
		},
		Run: runC15,
		Rule: "cases 0-11: server-side rawsocket handshake against every client hello in {0x7f,0x7e,0x00} x 256 x {0000,0001,0100,ffff} and every truncation (exhaustive); cases 12-17: client-side handshake " +
			"(each serializer, several receive limits) against every server reply of the same set over loopback TCP (exhaustive); then rotating kinds: size boundaries (limit-1, limit, limit+1 in both " +
			"directions for length nibbles 1,2,3,7,15 with an incremental wire-stream checker), PING/PONG with payload sizes 0..limit during traffic, frames of reserved type, connection cut at every byte " +
			"offset of a session transcript, websocket fake-connection faults at the k-th call, and transport-differential replay of a generated scenario over local, rawsocket x3 and websocket x3; " +
			"every 9th of these (engine live): real RawSocketServer/WebsocketServer on unix/TCP sockets with RecvLimit 0/4096/5000/65536/1M and the project's client transports announcing 0/2048/3000/65536, plus one subscriber that is a real client.Client created by client.ConnectNet: " +
			"PUBLISHes of exactly limit-1, limit, limit+1, limit+500 bytes from the client, EVENTs 200 bytes below/above the client's limit, contents compared, order and completeness checked, connections must survive (LV4, LV5); " +
			"non-trivial = transcript with a frame within +-1 of a negotiated limit, a hello/reply that discriminates accept from reject, or a scenario with numbers the codecs represent differently",
		Required: []string{"TR1", "TR2", "TR3", "TR4", "TR5", "TR6", "TR7", "TR8", "TR9", "LV4", "LV5"},
		Level:    "exploration",
	})
}

func runC15(c *Case) {
	switch {
	case c.Index < c15ServerHS:
		c15ServerHandshake(c, c.Index)
	case c.Index < c15ServerHS+c15ClientHS:
		c15ClientHandshake(c, c.Index-c15ServerHS)
	default:
		if (c.Index-c15ServerHS-c15ClientHS)%9 == 8 {
			runC15Live(c)
			return
		}
		switch (c.Index - c15ServerHS - c15ClientHS) % 6 {
		case 5:
			c15Unserialisable(c)
		case 0:
			c15Sizes(c)
		case 1:
			c15PingAndReserved(c)
		case 2:
			c15Cut(c)
		case 3:
			c15WSFaults(c)
		default:
			c15Differential(c)
		}
	}
}

var c15Magics = []byte{0x7f, 0x7e, 0x00}
var c15Reserved = [][2]byte{{0, 0}, {0, 1}, {1, 0}, {0xff, 0xff}}

func lenOfNibble(n byte) int { return 1 << (9 + int(n)) }

func specNibble(n int) int {
	if n == 0 {
		return -1
	}
	return n
}

func nibbleFor(limit int) byte {
	if limit <= 0 {
		return 15
	}
	for b := byte(0); b < 15; b++ {
		if lenOfNibble(b) >= limit {
			return b
		}
	}
	return 15
}

// c15ServerHandshake: exhaustive chunk of client hellos against AcceptRawSocket.
func c15ServerHandshake(c *Case, chunk int) {
	c.Key = fmt.Sprintf("server handshake chunk %d", chunk)
	recvLimit := []int{0, 512, 4096, 1 << 20, 1 << 24, 600}[chunk%6]
	srvNibble := nibbleFor(recvLimit)
	accepts, rejects := 0, 0
	idx := 0
	panicText := c.Bubble(func() {
		log := sim.NewLogBuf(50)
		for _, magic := range c15Magics {
			for second := 0; second < 256; second++ {
				for _, res := range c15Reserved {
					idx++
					if idx%c15ServerHS != chunk {
						continue
					}
					hello := []byte{magic, byte(second), res[0], res[1]}
					for cut := 4; cut >= 0; cut-- {
						if cut < 4 && (second%37 != 0) {
							continue // truncations for a sample of hellos
						}
						cli, srv := sim.BufPipe(0)
						var peer wamp.Peer
						var aerr error
						done := make(chan struct{})
						go func() {
							peer, aerr = transport.AcceptRawSocket(srv, log, recvLimit, 16)
							close(done)
						}()
						cli.Write(hello[:cut])
						if cut < 4 {
							cli.Close()
						}
						synctestWait()
						reply := cli.TakeAvailable()
						returned := false
						select {
						case <-done:
							returned = true
						default:
						}
						c.Hit("TR4")
						ser := byte(second) & 0xf
						wantAccept := cut == 4 && magic == 0x7f && res == [2]byte{0, 0} && ser >= 1 && ser <= 3
						desc := fmt.Sprintf("client hello % x (server recv limit %d)", hello[:cut], recvLimit)
						if !returned {
							c.Fail("TR4", "server handshake does not return", "%s: AcceptRawSocket still blocked at quiescence", desc)
							cli.Close()
							synctestWait()
							continue
						}
						accepted := aerr == nil && peer != nil
						if accepted != wantAccept {
							c.Fail("TR4", fmt.Sprintf("server handshake accept=%v want %v", accepted, wantAccept), "%s: accepted=%v (err %v), reference says %v", desc, accepted, aerr, wantAccept)
						}
						if wantAccept {
							accepts++
							want := []byte{0x7f, srvNibble<<4 | ser, 0, 0}
							if !bytes.Equal(reply, want) {
								c.Fail("TR4", "server handshake reply", "%s: reply % x, reference % x", desc, reply, want)
							}
						} else {
							rejects++
							if len(reply) != 0 {
								ok := len(reply) == 4 && reply[0] == 0x7f && reply[1]&0xf == 0 && reply[2] == 0 && reply[3] == 0 && reply[1]>>4 >= 1 && reply[1]>>4 <= 4
								if !ok {
									c.Fail("TR4", "malformed handshake error reply", "%s: refusal reply % x is not a well-formed error reply", desc, reply)
								}
								if cut == 4 && magic == 0x7f && res == [2]byte{0, 0} && ser > 3 && reply[1]>>4 != 1 {
									c.Fail("TR4", "wrong handshake error code", "%s: unsupported serializer answered with error code %d, expected 1", desc, reply[1]>>4)
								}
								if cut == 4 && magic == 0x7f && res != [2]byte{0, 0} && reply[1]>>4 != 3 {
									c.Fail("TR4", "wrong handshake error code", "%s: reserved bits answered with error code %d, expected 3", desc, reply[1]>>4)
								}
							}
							if !accepted && !cli.PeerClosed() {
								c.Fail("TR4", "refused handshake leaves the connection open", "%s: handshake refused but the server did not close the connection", desc)
							}
						}
						if accepted {
							peer.Close()
						}
						cli.Close()
						synctestWait()
					}
				}
			}
		}
		sleepVirtual(2 * time.Second)
		for _, g := range sim.Leaked() {
			c.Fail("SD5", "goroutine left after handshake: "+leakSig(g), "%s", g)
		}
	})
	if panicText != "" {
		c.Fail("RB1", "bubble panic: "+firstLine(panicText), "%s", panicText)
	}
	c.NT = accepts > 0 && rejects > 0
	c.Add("server_hellos", float64(accepts+rejects))
	c.Sample = map[string]any{"kind": "server-handshake-table", "chunk": chunk, "of": c15ServerHS, "recv_limit": recvLimit, "accepted": accepts, "refused": rejects, "exhaustive_over": "3 magic x 256 x 4 reserved (+ truncations)"}
}

// c15ClientHandshake: ConnectRawSocketPeer against every server reply, over loopback TCP.
func c15ClientHandshake(c *Case, part int) {
	c.Key = fmt.Sprintf("client handshake part %d", part)
	sers := []serialize.Serialization{serialize.JSON, serialize.MSGPACK, serialize.CBOR}
	ser := sers[part%3]
	proto := byte(part%3) + 1
	recvLimit := []int{0, 512, 70000, 1 << 24, 1000, 1 << 20}[part]
	cliNibble := nibbleFor(recvLimit)
	ln, err := net.Listen("tcp", "127.0.0.1:0")
	if err != nil {
		c.Inconcl = "cannot listen on loopback: " + err.Error()
		return
	}
	defer ln.Close()
	type job struct{ reply []byte }
	jobs := make(chan job, 1)
	hellos := make(chan []byte, 1)
	go func() {
		for {
			conn, err := ln.Accept()
			if err != nil {
				return
			}
			j := <-jobs
			var h [4]byte
			conn.SetDeadline(time.Now().Add(5 * time.Second))
			io.ReadFull(conn, h[:])
			hellos <- append([]byte(nil), h[:]...)
			conn.Write(j.reply)
			if len(j.reply) < 4 {
				conn.Close()
				continue
			}
			go func() { io.Copy(io.Discard, conn); conn.Close() }()
		}
	}()
	log := sim.NewLogBuf(20)
	acc, rej := 0, 0
	for _, magic := range c15Magics {
		for second := 0; second < 256; second++ {
			for _, res := range c15Reserved {
				reply := []byte{magic, byte(second), res[0], res[1]}
				jobs <- job{reply}
				ctx, cancel := context.WithTimeout(context.Background(), 5*time.Second)
				peer, err := transport.ConnectRawSocketPeer(ctx, "tcp", ln.Addr().String(), ser, nil, log, recvLimit)
				cancel()
				hello := <-hellos
				c.Hit("TR4")
				wantHello := []byte{0x7f, cliNibble<<4 | proto, 0, 0}
				if !bytes.Equal(hello, wantHello) {
					c.Fail("TR4", "client hello", "client (serializer %d, recv limit %d) sent hello % x, reference % x", proto, recvLimit, hello, wantHello)
				}
				// reference: magic, echoed serializer; reserved bytes of the reply are not pinned by the statement for the client side
				wantAccept := magic == 0x7f && byte(second)&0xf == proto
				accepted := err == nil && peer != nil
				if accepted != wantAccept {
					c.Fail("TR4", fmt.Sprintf("client handshake accept=%v want %v", accepted, wantAccept), "server reply % x to a client asking for serializer %d: connected=%v (err %v), reference says %v", reply, proto, accepted, err, wantAccept)
				}
				if accepted {
					acc++
					peer.Close()
				} else {
					rej++
				}
			}
		}
	}
	c.NT = acc > 0 && rej > 0
	c.Add("client_replies", float64(acc+rej))
	c.Sample = map[string]any{"kind": "client-handshake-table", "serializer": proto, "recv_limit": recvLimit, "accepted": acc, "refused": rej, "exhaustive_over": "3 magic x 256 x 4 reserved"}
}

func c15World(c *Case, recvLimit int) (*sim.World, *sim.Puppet, *sim.Puppet, bool) {
	cfg := &router.Config{RealmConfigs: []*router.RealmConfig{{URI: "realm1", AnonymousAuth: true}}}
	w, err := sim.NewWorld(cfg)
	if err != nil {
		c.Fail("HARNESS", "world", "cannot create world: %v", err)
		return nil, nil, nil, false
	}
	p0 := w.AddPuppet(sim.PuppetSpec{Kind: sim.Local})
	p1 := w.AddPuppet(sim.PuppetSpec{Kind: sim.Local})
	p0.Join("realm1", wamp.Dict{"roles": sim.AllFeatures()})
	p1.Join("realm1", wamp.Dict{"roles": sim.AllFeatures()})
	p1.Send(&wamp.Subscribe{Request: 1, Options: wamp.Dict{}, Topic: "probe.topic"})
	w.Wait()
	p0.Take()
	p1.Take()
	return w, p0, p1, p0.SID != 0 && p1.SID != 0
}

func c15Probe(c *Case, w *sim.World, p0, p1 *sim.Puppet, after string) {
	p0.Send(&wamp.Publish{Request: 999, Options: wamp.Dict{"acknowledge": true}, Topic: "probe.topic", Arguments: wamp.List{"probe"}})
	w.Wait()
	okP, okE := false, false
	for _, o := range p0.Take() {
		if _, ok := o.Msg.(*wamp.Published); ok {
			okP = true
		}
	}
	for _, o := range p1.Take() {
		if _, ok := o.Msg.(*wamp.Event); ok {
			okE = true
		}
	}
	c.Hit("TR5")
	if !okP || !okE {
		c.Fail("TR5", "other sessions not served after "+after, "after %s the router no longer served two uninvolved sessions (published=%v event=%v)", after, okP, okE)
	}
}

// c15Sizes: message sizes around the negotiated limits, both directions.
func c15Sizes(c *Case) {
	r := c.Rng
	// nibble 0 (512 bytes) cannot even carry the router's WELCOME; it is covered by the handshake table
	nib := pick(r, []int{1, 2, 3, 7, 15})
	if nib == 15 && (c.Tier != "thorough" || c.Index%8 != 0) {
		nib = pick(r, []int{1, 2, 3, 7})
	}
	kind := pick(r, []sim.Kind{sim.RawJSON, sim.RawMsgpack, sim.RawCBOR})
	srvLimit := pick(r, []int{512, 1024, 4096, 65536})
	limit := lenOfNibble(byte(nib))
	near := 0
	panicText := c.Bubble(func() {
		cfg := &router.Config{RealmConfigs: []*router.RealmConfig{{URI: "realm1", AnonymousAuth: true}}}
		w, err := sim.NewWorld(cfg)
		if err != nil {
			c.Fail("HARNESS", "world", "%v", err)
			return
		}
		pub := w.AddPuppet(sim.PuppetSpec{Kind: sim.Local})
		pub.Join("realm1", wamp.Dict{"roles": sim.AllFeatures()})
		s := w.AddPuppet(sim.PuppetSpec{Kind: kind, LenNibble: specNibble(nib), RecvLimit: srvLimit, PipeBuf: 64 << 20, QSize: 512})
		s.Join("realm1", wamp.Dict{"roles": wamp.Dict{"subscriber": wamp.Dict{}, "publisher": wamp.Dict{}}})
		if s.SID == 0 {
			c.Fail("HARNESS", "join", "raw puppet could not join: %s", obsString(s.Log(), 3))
			w.Teardown()
			return
		}
		hs := s.HandshakeReply
		if len(hs) == 4 && int(hs[1]>>4) != int(nibbleFor(srvLimit)) {
			c.Fail("TR4", "server announces wrong limit", "server with receive limit %d announced nibble %d, reference %d", srvLimit, hs[1]>>4, nibbleFor(srvLimit))
		}
		s.Send(&wamp.Subscribe{Request: 1, Options: wamp.Dict{}, Topic: "big"})
		w.Wait()
		s.Take()
		// ---- router -> client: payload sizes around the client's limit
		var sizes []int
		step := 6
		if nib == 15 {
			step = 60 // 16 MiB messages: three of them around the limit are enough (each costs seconds under the race detector)
		}
		for d := -90; d <= 30; d += step {
			if n := limit + d - 60; n > 0 {
				sizes = append(sizes, n)
			}
		}
		if nib == 15 {
			sizes = append(sizes, 1)
		} else {
			sizes = append(sizes, 1, limit/2, limit*2)
		}
		for i, n := range sizes {
			pub.Send(&wamp.Publish{Request: wamp.ID(10 + i), Options: wamp.Dict{}, Topic: "big", Arguments: wamp.List{i, strings.Repeat("z", n)}})
			pub.Send(&wamp.Publish{Request: wamp.ID(5000 + i), Options: wamp.Dict{}, Topic: "big", Arguments: wamp.List{i, "marker"}})
		}
		w.Wait()
		gotBig := map[int]int{} // index -> frame length
		markers := []int{}
		minOver, maxOver := 1<<30, 0
		for _, o := range s.Take() {
			c.Hit("TR1")
			if o.Err != "" {
				c.Fail("TR1", "malformed frame from router", "subscriber with limit %d received a frame it cannot parse (type %d, %d bytes): %s", limit, o.Frame, len(o.Raw), o.Err)
				continue
			}
			ev, ok := o.Msg.(*wamp.Event)
			if !ok {
				continue
			}
			c.Hit("TR2")
			if len(o.Raw) > limit {
				c.Fail("TR2", "frame larger than the announced limit", "client announced a receive limit of %d bytes (nibble %d) but was sent a frame of %d bytes", limit, nib, len(o.Raw))
			}
			if len(o.Raw) >= limit-1 && len(o.Raw) <= limit+1 {
				near++
			}
			if len(ev.Arguments) == 2 {
				i, _ := canon.AsID(ev.Arguments[0])
				str, _ := canon.AsStr(ev.Arguments[1])
				if str == "marker" {
					markers = append(markers, int(i))
				} else {
					gotBig[int(i)] = len(o.Raw)
					over := len(o.Raw) - len(str)
					if over < minOver {
						minOver = over
					}
					if over > maxOver {
						maxOver = over
					}
					if str != strings.Repeat("z", len(str)) || len(str) != sizes[int(i)] {
						c.Fail("TR3", "payload corrupted", "event %d arrived with a payload of %d bytes, published %d", i, len(str), sizes[int(i)])
					}
				}
			}
		}
		c.Hit("TR3")
		for i := range sizes {
			if i >= len(markers) || markers[i] != i {
				c.Fail("TR3", "messages after an oversize one lost or reordered", "markers received %v, expected 0..%d in order (limit %d)", markers, len(sizes)-1, limit)
				break
			}
		}
		if maxOver > 0 {
			for i, n := range sizes {
				_, got := gotBig[i]
				if n+maxOver <= limit && !got {
					c.Fail("TR3", "message within the limit dropped", "event %d with payload %d (+%d overhead) fits the limit %d but was not delivered", i, n, maxOver, limit)
				}
			}
		}
		// ---- client -> router: frames around the server's limit
		srvLen := lenOfNibble(nibbleFor(srvLimit))
		ser := kind.Serializer()
		var lastSize int
		for i, target := range []int{srvLen - 1, srvLen, srvLen + 1} {
			// build a PUBLISH whose serialized size is exactly target
			base, _ := ser.Serialize(&wamp.Publish{Request: wamp.ID(7000 + i), Options: wamp.Dict{"acknowledge": true}, Topic: "x.y", Arguments: wamp.List{""}})
			pad := target - len(base)
			if pad < 0 {
				continue
			}
			b, _ := ser.Serialize(&wamp.Publish{Request: wamp.ID(7000 + i), Options: wamp.Dict{"acknowledge": true}, Topic: "x.y", Arguments: wamp.List{strings.Repeat("q", pad)}})
			// string length prefixes may grow by a few bytes; trim to hit the target exactly
			for len(b) > target && pad > 0 {
				pad -= len(b) - target
				b, _ = ser.Serialize(&wamp.Publish{Request: wamp.ID(7000 + i), Options: wamp.Dict{"acknowledge": true}, Topic: "x.y", Arguments: wamp.List{strings.Repeat("q", pad)}})
			}
			lastSize = len(b)
			s.SendRaw(sim.EncodeFrame(0, b), 0)
			w.Wait()
			acked, closed := false, s.Closed()
			for _, o := range s.Take() {
				if p, ok := o.Msg.(*wamp.Published); ok && uint64(p.Request) == uint64(7000+i) {
					acked = true
				}
			}
			c.Hit("TR5")
			if len(b) >= srvLen-1 && len(b) <= srvLen+1 {
				near++
			}
			if len(b) <= srvLen && (!acked || closed) {
				c.Fail("TR5", "frame within the server's limit refused", "a %d byte frame (server limit %d) was not processed: acknowledged=%v closed=%v", len(b), srvLen, acked, closed)
			}
			if len(b) > srvLen && acked {
				c.Fail("TR5", "frame above the server's limit processed", "a %d byte frame above the announced limit %d was processed", len(b), srvLen)
			}
		}
		_ = lastSize
		w.Advance(2 * time.Second)
		c.Hit("TR5")
		if !s.Closed() {
			c.Fail("TR5", "connection survives a frame above the limit", "after a frame of %d bytes (limit %d) the connection is still open", lastSize, srvLen)
		}
		// the router still serves others
		pub.Send(&wamp.Publish{Request: 9000, Options: wamp.Dict{"acknowledge": true}, Topic: "big", Arguments: wamp.List{"after"}})
		w.Wait()
		ok := false
		for _, o := range pub.Take() {
			if _, isP := o.Msg.(*wamp.Published); isP {
				ok = true
			}
		}
		if !ok {
			c.Fail("TR5", "router not serving after an over-limit frame", "publisher not acknowledged after another connection sent an over-limit frame")
		}
		rep := w.Teardown()
		if !rep.CloseReturned {
			c.Fail("SD1", "router close did not return", "close")
		}
		for _, g := range rep.Leaked {
			c.Fail("SD5", "goroutine left after close: "+leakSig(g), "%s", g)
		}
	})
	if panicText != "" {
		c.Fail("RB1", "bubble panic: "+firstLine(panicText), "%s", panicText)
	}
	c.NT = near > 0
	c.Key = fmt.Sprintf("sizes %s nibble=%d srv=%d", kind, nib, srvLimit)
	c.Sample = map[string]any{"kind": "size-boundaries", "transport": kind.String(), "client_limit": limit, "server_limit": srvLimit, "frames_within_1_of_a_limit": near}
}

// c15PingAndReserved: PING/PONG during traffic; reserved frame types end only that connection.
func c15PingAndReserved(c *Case) {
	r := c.Rng
	kind := pick(r, []sim.Kind{sim.RawJSON, sim.RawMsgpack, sim.RawCBOR})
	nib := pick(r, []int{1, 2, 7})
	limit := lenOfNibble(byte(nib))
	pings, split := 0, 0
	panicText := c.Bubble(func() {
		w, p0, p1, ok := c15World(c, 0)
		if !ok {
			return
		}
		s := w.AddPuppet(sim.PuppetSpec{Kind: kind, LenNibble: specNibble(nib), PipeBuf: 8 << 20, QSize: 2048})
		s.Join("realm1", wamp.Dict{"roles": sim.AllFeatures()})
		s.Send(&wamp.Subscribe{Request: 1, Options: wamp.Dict{}, Topic: "flood"})
		w.Wait()
		s.Take()
		// traffic towards s while it pings
		var want [][]byte
		for i := 0; i < 60; i++ {
			p0.Send(&wamp.Publish{Request: wamp.ID(100 + i), Options: wamp.Dict{}, Topic: "flood", Arguments: wamp.List{i, strings.Repeat("f", 50+r.IntN(300))}})
			if i%3 == 0 {
				n := pick(r, []int{0, 1, 7, 125, 126, 400, limit - 1, limit})
				if n > 1<<16 {
					n = 1 << 16
				}
				pl := make([]byte, n)
				for k := range pl {
					pl[k] = byte(r.IntN(256))
				}
				want = append(want, pl)
				fr := sim.EncodeFrame(1, pl)
				if i%2 == 1 && len(fr) > 1 {
					// the PING reaches the router in two pieces (segmentation): cut inside the header or the payload
					k := 1 + r.IntN(len(fr)-1)
					s.SendRaw(fr[:k], 0)
					w.Wait()
					s.SendRaw(fr[k:], 0)
					split++
				} else {
					s.SendRaw(fr, 0)
				}
				pings++
			}
		}
		w.Wait()
		var pongs [][]byte
		last := -1
		for _, o := range s.Take() {
			c.Hit("TR1")
			if o.Err != "" {
				c.Fail("TR1", "stream corrupted while PONGs are written", "frame type %d (%d bytes) could not be parsed: %s - a PONG was written into the middle of another frame", o.Frame, len(o.Raw), o.Err)
				break
			}
			switch o.Frame {
			case 2:
				pongs = append(pongs, o.Raw)
			case 0:
				if ev, ok := o.Msg.(*wamp.Event); ok && len(ev.Arguments) == 2 {
					i, _ := canon.AsID(ev.Arguments[0])
					if int(i) <= last {
						c.Fail("TR1", "events reordered", "event %d after %d", i, last)
					}
					last = int(i)
				}
			default:
				c.Fail("TR1", "unexpected frame type from router", "frame type %d", o.Frame)
			}
		}
		c.Hit("TR6")
		if len(pongs) != len(want) {
			c.Fail("TR6", "PING not answered by PONG", "%d PINGs sent, %d PONGs received (stream closed=%v)", len(want), len(pongs), s.Closed())
		} else {
			for i := range want {
				if !bytes.Equal(pongs[i], want[i]) {
					c.Fail("TR6", "PONG payload differs", "PING %d had %d bytes payload, PONG carries %d bytes (equal=%v)", i, len(want[i]), len(pongs[i]), bytes.Equal(pongs[i], want[i]))
					break
				}
			}
		}
		if last != 59 {
			c.Fail("TR3", "events lost while pinging", "last event received %d of 59", last)
		}
		// reserved frame types end that connection only
		typ := byte(3 + r.IntN(5))
		s.SendRaw(sim.EncodeFrame(typ, []byte("xx")), 0)
		w.Advance(2 * time.Second)
		c.Hit("TR5")
		if !s.Closed() {
			c.Fail("TR5", "reserved frame type does not end the connection", "after a frame of reserved type %d the connection is still open", typ)
		}
		c15Probe(c, w, p0, p1, fmt.Sprintf("a frame of reserved type %d", typ))
		rep := w.Teardown()
		if !rep.CloseReturned {
			c.Fail("SD1", "router close did not return", "close")
		}
		for _, g := range rep.Leaked {
			c.Fail("SD5", "goroutine left after close: "+leakSig(g), "%s", g)
		}
	})
	if panicText != "" {
		c.Fail("RB1", "bubble panic: "+firstLine(panicText), "%s", panicText)
	}
	c.NT = pings > 0
	c.Key = fmt.Sprintf("ping %s nib=%d %d", kind, nib, c.Index)
	c.Sample = map[string]any{"kind": "ping-pong-and-reserved-frames", "transport": kind.String(), "pings": pings, "limit": limit}
}

// c15Cut: the connection is cut at every byte offset of a valid transcript.
func c15Cut(c *Case) {
	r := c.Rng
	kind := pick(r, []sim.Kind{sim.RawJSON, sim.RawMsgpack, sim.RawCBOR})
	ser := kind.Serializer()
	var transcript []byte
	transcript = append(transcript, 0x7f, 0xf0|byte(kind-sim.RawJSON+1), 0, 0)
	for _, m := range []wamp.Message{
		&wamp.Hello{Realm: "realm1", Details: wamp.Dict{"roles": sim.AllFeatures()}},
		&wamp.Subscribe{Request: 1, Options: wamp.Dict{}, Topic: "probe.topic"},
		&wamp.Publish{Request: 2, Options: wamp.Dict{"acknowledge": true}, Topic: "a.b", Arguments: wamp.List{"x"}},
		&wamp.Goodbye{Details: wamp.Dict{}, Reason: "wamp.close.close_realm"},
	} {
		b, _ := ser.Serialize(m)
		transcript = append(transcript, sim.EncodeFrame(0, b)...)
	}
	offsets := 0
	panicText := c.Bubble(func() {
		w, p0, p1, ok := c15World(c, 0)
		if !ok {
			return
		}
		for k := 0; k <= len(transcript); k++ {
			if c.Tier != "thorough" && k%2 == c.Index%2 && k > 8 {
				continue
			}
			p := w.AddPuppet(sim.PuppetSpec{Kind: kind, ManualHandshake: true})
			p.SendRaw(transcript[:k], 0)
			p.Drop()
			w.Wait()
			offsets++
			c.Hit("TR7")
			if k%16 == 0 {
				c15Probe(c, w, p0, p1, fmt.Sprintf("a connection cut at byte %d of %d", k, len(transcript)))
			}
		}
		w.Advance(10 * time.Second)
		c15Probe(c, w, p0, p1, "all cut connections")
		// no session of a cut connection may linger
		p0.Send(&wamp.Call{Request: 50, Options: wamp.Dict{}, Procedure: "wamp.session.count"})
		w.Wait()
		for _, o := range p0.Take() {
			if res, ok := o.Msg.(*wamp.Result); ok && len(res.Arguments) > 0 {
				if n, _ := canon.AsID(res.Arguments[0]); n != 2 {
					c.Fail("TR7", "session of a cut connection lingers", "wamp.session.count=%d after every cut connection ended, expected 2", n)
				}
			}
		}
		rep := w.Teardown()
		if !rep.CloseReturned {
			c.Fail("SD1", "router close did not return", "close")
		}
		for _, g := range rep.Leaked {
			c.Fail("SD5", "goroutine left after close: "+leakSig(g), "%s", g)
		}
	})
	if panicText != "" {
		c.Fail("RB1", "bubble panic: "+firstLine(panicText), "%s", panicText)
	}
	c.NT = offsets > 4
	c.Add("cut_offsets", float64(offsets))
	c.Key = fmt.Sprintf("cut %s %d", kind, c.Index)
	c.Sample = map[string]any{"kind": "cut-at-every-offset", "transport": kind.String(), "transcript_bytes": len(transcript), "offsets": offsets}
}

// c15WSFaults: websocket connection faults at the k-th call and wrong payload types.
func c15WSFaults(c *Case) {
	r := c.Rng
	kind := pick(r, []sim.Kind{sim.WSJSON, sim.WSMsgpack, sim.WSCBOR})
	faults := 0
	panicText := c.Bubble(func() {
		w, p0, p1, ok := c15World(c, 0)
		if !ok {
			return
		}
		for k := 1; k <= 6; k++ {
			for _, mode := range []string{"read", "write", "type", "garbage", "close"} {
				spec := sim.PuppetSpec{Kind: kind, PipeBuf: 4}
				switch mode {
				case "read":
					spec.FailReadAt = k
				case "write":
					spec.FailWriteAt = k
				}
				p := w.AddPuppet(spec)
				p.Send(&wamp.Hello{Realm: "realm1", Details: wamp.Dict{"roles": sim.AllFeatures()}})
				p.Send(&wamp.Subscribe{Request: 1, Options: wamp.Dict{}, Topic: "probe.topic"})
				switch mode {
				case "type": // a frame of the wrong websocket type for the negotiated serializer
					b, _ := kind.Serializer().Serialize(&wamp.Publish{Request: 2, Options: wamp.Dict{}, Topic: "a"})
					typ := sim.WSText
					if kind == sim.WSJSON {
						typ = sim.WSBinary
					}
					p.SendRaw(b, typ)
				case "garbage":
					p.SendRaw([]byte{0xff, 0x00, 0x7b}, sim.WSBinary)
					p.SendRaw([]byte("not json"), sim.WSText)
				case "close":
					p.SendRaw(nil, sim.WSClose)
				}
				for i := 0; i < k; i++ {
					p.Send(&wamp.Publish{Request: wamp.ID(10 + i), Options: wamp.Dict{"acknowledge": true}, Topic: "a"})
				}
				w.Wait()
				faults++
				c.Hit("TR7")
				c15Probe(c, w, p0, p1, fmt.Sprintf("websocket fault %s at call %d", mode, k))
				p.Quit()
				w.Wait()
			}
		}
		w.Advance(10 * time.Second)
		rep := w.Teardown()
		if !rep.CloseReturned {
			c.Fail("SD1", "router close did not return", "close")
		}
		for _, g := range rep.Leaked {
			c.Fail("SD5", "goroutine left after close: "+leakSig(g), "%s", g)
		}
	})
	if panicText != "" {
		c.Fail("RB1", "bubble panic: "+firstLine(panicText), "%s", panicText)
	}
	c.NT = faults > 0
	c.Key = fmt.Sprintf("wsfaults %s %d", kind, c.Index)
	c.Sample = map[string]any{"kind": "websocket-faults", "transport": kind.String(), "faulty_connections": faults}
}

// c15Differential: one generated scenario replayed with every session attached over each of the 7 kinds.
func c15Differential(c *Case) {
	var rr *rpcRun
	w := rpcWeights{register: 12, unregister: 3, call: 22, yield: 14, inverr: 4, cancel: 6, advance: 3, leave: 3, join: 0, foreign: 2, pubsub: 30,
		progInv: 8, timeoutPct: 20, progPct: 30, hotPct: 0, nSteps: 16}
	panicText := c.Bubble(func() {
		rr = runRPCScript(c, w, false)
		if rr.run != nil {
			rr.run.Finish()
		}
	})
	if panicText != "" {
		c.Fail("RB1", "bubble panic: "+firstLine(panicText), "%s", panicText)
	}
	if rr == nil || rr.run == nil {
		return
	}
	c.Key = rr.key()
	// random invocation policies make the routing itself nondeterministic: skip such scripts
	for _, s := range rr.script {
		if strings.Contains(s, "invoke: random") {
			c.Sample = map[string]any{"kind": "transport-differential", "skipped": "script uses the random invocation policy"}
			return
		}
	}
	traces := map[sim.Kind][]string{}
	for k := sim.Local; k < sim.NumKinds; k++ {
		k := k
		before := len(c.Viol)
		pt := c.Bubble(func() {
			// in-process peers are trusted by default (role "trusted", no authentication); for a
			// like-for-like comparison every attachment authenticates through the same authenticator
			realm := rr.realm
			realm.RequireLocalAuth = true
			run, err := NewRunner(c, []RealmSetup{realm}, nil)
			if err != nil {
				return
			}
			for _, st := range rr.steps {
				if st.Join != nil {
					ps := *st.Join
					ps.Kind = k
					// identity must not depend on the transport: every session authenticates through the table
					if ps.AuthID == "" {
						ps.AuthID = "carol"
					}
					ps.LocalAuth = k == sim.Local
					run.Join(ps)
				} else {
					run.Exec(*st.Op)
				}
			}
			traces[k] = normalizedLogs(run.W)
			run.Finish()
		})
		if pt != "" {
			c.Fail("RB1", "bubble panic: "+firstLine(pt), "%s", pt)
		}
		c.Viol = c.Viol[:before] // model findings belong to C01-C03; here only the differential decides
	}
	// the order between independent streams at one receiver (a RESULT and a meta EVENT, say) is
	// not pinned by any property: compare the observations as a multiset per session
	for k := range traces {
		sort.Strings(traces[k])
	}
	ref := traces[sim.Local]
	c.Hit("TR8")
	for k := sim.RawJSON; k < sim.NumKinds; k++ {
		got := traces[k]
		if len(got) != len(ref) {
			c.Fail("TR8", "scenario differs between transports", "local attachment: %d observations, %s: %d", len(ref), k, len(got))
			continue
		}
		for i := range ref {
			if ref[i] != got[i] {
				c.Fail("TR8", "scenario differs between transports", "observation %d differs between local and %s attachment:\n local: %s\n %s: %s", i, k, ref[i], k, got[i])
				break
			}
		}
	}
	nums := false
	for _, l := range ref {
		if strings.Contains(l, "9007199254740992") || strings.Contains(l, "0.1") {
			nums = true
		}
	}
	c.NT = nums
	c.Sample = map[string]any{"kind": "transport-differential", "observations": len(ref), "script": clip(rr.script, 30)}
}

// normalizedLogs renders every puppet's log with router-assigned random ids
// (session, publication) renamed by first occurrence, and without the details
// that legitimately differ by transport (authmethod of trusted local peers).
func normalizedLogs(w *sim.World) []string {
	var out []string
	rename := map[string]string{}
	for _, p := range w.Puppets {
		if p.SID != 0 {
			rename[fmt.Sprint(uint64(p.SID))] = fmt.Sprintf("sid(P%d)", p.Idx)
		}
	}
	ren := func(v uint64) string {
		k := fmt.Sprint(v)
		if v < 100000 {
			return k // sequential scope ids are deterministic
		}
		if r, ok := rename[k]; ok {
			return r
		}
		return "#random-id" // publication ids: equality across receivers is C01's business
	}
	var walk func(v any) any
	walk = func(v any) any {
		if l, ok := canon.AsList(v); ok {
			out := make([]any, len(l))
			for i, e := range l {
				out[i] = walk(e)
			}
			return out
		}
		if d, ok := canon.AsDict(v); ok {
			out := map[string]any{}
			for k, e := range d {
				out[k] = walk(e)
			}
			return out
		}
		if id, ok := canon.AsID(v); ok && id >= 100000 {
			if _, isStr := v.(string); !isStr {
				return ren(id)
			}
		}
		return v
	}
	pay := func(args wamp.List, kw wamp.Dict) string {
		a, _ := walk([]any(args)).([]any)
		k, _ := walk(map[string]any(kw)).(map[string]any)
		return canon.Payload(wamp.List(a), wamp.Dict(k))
	}
	for _, p := range w.Puppets {
		for _, o := range p.Log() {
			switch m := o.Msg.(type) {
			case nil:
				continue
			case *wamp.Welcome:
				out = append(out, fmt.Sprintf("P%d WELCOME", p.Idx))
			case *wamp.Event:
				d := wamp.Dict{}
				for k, v := range m.Details {
					if id, ok := canon.AsID(v); ok && k == "publisher" {
						d[k] = ren(id)
					} else {
						d[k] = v
					}
				}
				out = append(out, fmt.Sprintf("P%d EVENT sub=%d pub=%s details=%s %s", p.Idx, m.Subscription, ren(uint64(m.Publication)), canon.Dict(d), pay(m.Arguments, m.ArgumentsKw)))
			case *wamp.Published:
				out = append(out, fmt.Sprintf("P%d PUBLISHED req=%d pub=%s", p.Idx, m.Request, ren(uint64(m.Publication))))
			case *wamp.Invocation:
				d := wamp.Dict{}
				for k, v := range m.Details {
					if id, ok := canon.AsID(v); ok && k == "caller" {
						d[k] = ren(id)
					} else {
						d[k] = v
					}
				}
				out = append(out, fmt.Sprintf("P%d INVOCATION req=%d reg=%d details=%s %s", p.Idx, m.Request, m.Registration, canon.Dict(d), pay(m.Arguments, m.ArgumentsKw)))
			case *wamp.Goodbye, *wamp.Abort:
				out = append(out, fmt.Sprintf("P%d %s", p.Idx, m.MessageType()))
			case *wamp.Result:
				out = append(out, fmt.Sprintf("P%d RESULT req=%d details=%s %s", p.Idx, m.Request, canon.Dict(m.Details), pay(m.Arguments, m.ArgumentsKw)))
			case *wamp.Error:
				out = append(out, fmt.Sprintf("P%d ERROR type=%d req=%d %s %s", p.Idx, m.Type, m.Request, m.Error, pay(m.Arguments, m.ArgumentsKw)))
			default:
				out = append(out, fmt.Sprintf("P%d %s", p.Idx, o.Snap))
			}
		}
	}
	return out
}

var _ = model.Exact


// c15Unserialisable: in-process sessions can hand the router values that no
// serializer can encode (a complex number). A message carrying one must be
// dropped as a whole for receivers on network transports, the messages that
// follow must still arrive in order, and the connection stays up; receivers
// on websocket peers with keep-alive enabled are included (their sender also
// writes PINGs), and in-process receivers get everything.
func c15Unserialisable(c *Case) {
	r := c.Rng
	keepAlive := pick(r, []time.Duration{0, time.Second, 2 * time.Second})
	panicText := c.Bubble(func() {
		w, p0, p1, ok := c15World(c, 0)
		if !ok {
			return
		}
		var subs []*sim.Puppet
		for k := sim.Kind(0); k < sim.NumKinds; k++ {
			spec := sim.PuppetSpec{Kind: k, QSize: 256, PipeBuf: 1 << 20}
			if k.IsWS() {
				spec.PipeBuf = 1024
				spec.KeepAlive = keepAlive
			}
			s := w.AddPuppet(spec)
			s.Join("realm1", wamp.Dict{"roles": sim.AllFeatures()})
			s.Send(&wamp.Subscribe{Request: 1, Options: wamp.Dict{}, Topic: "mixed"})
			s.Send(&wamp.Register{Request: 2, Options: wamp.Dict{}, Procedure: wamp.URI(fmt.Sprintf("echo.%d", int(k)))})
			subs = append(subs, s)
		}
		w.Wait()
		for _, s := range subs {
			s.Take()
		}
		bad := pick(r, []any{complex(1, 2), complex64(complex(0, 1)), []any{1, complex(3, 4)}, map[string]any{"z": complex(5, 6)}})
		n := 0
		var badSeq []int
		for round := 0; round < 3; round++ {
			for i := 0; i < 4; i++ {
				n++
				args := wamp.List{n, "fine"}
				if i == 1+round%2 {
					args = wamp.List{n, bad}
					badSeq = append(badSeq, n)
				}
				p0.Send(&wamp.Publish{Request: wamp.ID(100 + n), Options: wamp.Dict{}, Topic: "mixed", Arguments: args})
			}
			w.Wait()
			if keepAlive > 0 {
				w.Advance(keepAlive + keepAlive/2) // at least one keep-alive PING/PONG exchange between the rounds
			}
		}
		isBad := map[int]bool{}
		for _, b := range badSeq {
			isBad[b] = true
		}
		for _, s := range subs {
			var got []int
			for _, o := range s.Log() {
				if o.Err != "" {
					c.Fail("TR1", "stream corrupted after an unserialisable message", "subscriber on %s: frame could not be parsed: %s", s.Kind, o.Err)
				}
				if ev, ok := o.Msg.(*wamp.Event); ok && len(ev.Arguments) >= 1 {
					k, _ := canon.AsID(ev.Arguments[0])
					got = append(got, int(k))
				}
			}
			var want []int
			for k := 1; k <= n; k++ {
				if s.Kind == sim.Local || !isBad[k] {
					want = append(want, k)
				}
			}
			c.Hit("TR9")
			if fmt.Sprint(got) != fmt.Sprint(want) {
				c.Fail("TR9", "messages lost or reordered around an unserialisable one", "subscriber on %s (keep-alive %v): received events %v, expected %v (events %v carried a value no serializer can encode)", s.Kind, keepAlive, got, want, badSeq)
			}
			if s.Closed() {
				c.Fail("TR9", "connection ended by an unserialisable message", "subscriber on %s lost its connection", s.Kind)
			}
		}
		c15Probe(c, w, p0, p1, "unserialisable messages")
		rep := w.Teardown()
		if !rep.CloseReturned {
			c.Fail("SD1", "router close did not return", "Router.Close() did not return")
		}
	})
	if panicText != "" {
		c.Fail("RB1", "bubble panic: "+firstLine(panicText), "%s", panicText)
	}
	c.NT = true
	c.Key = fmt.Sprintf("unserialisable keepalive=%v seed=%d", keepAlive, c.Index)
	c.Sample = map[string]any{"kind": "unserialisable-values", "keepalive": keepAlive.String()}
}
