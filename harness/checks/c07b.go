package checks

import (
	"fmt"
	"runtime"
	"strings"
	"sync"
	"time"

	"github.com/gammazero/nexus/v3/router"
	"github.com/gammazero/nexus/v3/wamp"

	"verif/harness/sim"
)

// runC07Concurrent is the second workload of C07 (every 4th case): nobody is
// stalled, but closed-loop sessions churn registrations and subscriptions, call
// the meta API, publish and call concurrently (no quiescence in between,
// GOMAXPROCS varied), so that the broker, the dealer, the realm's meta session
// and the session handlers hand work to each other in every order. Every loop
// must complete all its rounds by the time the bubble is quiescent; rounds left
// over mean goroutines of the router wait for each other in a cycle.
func runC07Concurrent(c *Case) {
	r := c.Rng
	procs := pick(r, []int{1, 2, 4, 8})
	rounds := 30 + r.IntN(91)
	nMeta := 1 + r.IntN(3)
	type loop struct {
		name string
		p    *sim.Puppet
		done int
	}
	var loops []*loop
	var mu sync.Mutex
	panicText := c.Bubble(func() {
		old := runtime.GOMAXPROCS(procs)
		defer runtime.GOMAXPROCS(old)
		cfg := &router.Config{RealmConfigs: []*router.RealmConfig{{URI: "realm1", AnonymousAuth: true, AllowDisclose: true, EnableMetaKill: true}}}
		w, err := sim.NewWorld(cfg)
		if err != nil {
			c.Fail("HARNESS", "world", "cannot create world: %v", err)
			return
		}
		join := func(name string) *loop {
			p := w.AddPuppet(sim.PuppetSpec{Kind: randomKind(r, 60), QSize: 4096, PipeBuf: 1 << 20})
			p.Join("realm1", wamp.Dict{"roles": sim.AllFeatures()})
			l := &loop{name: name, p: p}
			loops = append(loops, l)
			return l
		}
		step := func(l *loop) bool { // counts a completed round; true if another one is due
			mu.Lock()
			defer mu.Unlock()
			l.done++
			return l.done < rounds
		}
		// 1. registration churn (also answers invocations)
		reg := join("register/unregister churn")
		reg.p.SetOnMsg(func(m wamp.Message) {
			switch x := m.(type) {
			case *wamp.Registered:
				reg.p.Send(&wamp.Unregister{Request: x.Request + 1, Registration: x.Registration})
			case *wamp.Unregistered:
				if step(reg) {
					reg.p.Send(&wamp.Register{Request: x.Request + 1, Options: wamp.Dict{}, Procedure: "churn.proc"})
				}
			case *wamp.Invocation:
				reg.p.Send(&wamp.Yield{Request: x.Request, Options: wamp.Dict{}, Arguments: wamp.List{"ok"}})
			}
		})
		// 2. subscription churn
		sub := join("subscribe/unsubscribe churn")
		sub.p.SetOnMsg(func(m wamp.Message) {
			switch x := m.(type) {
			case *wamp.Subscribed:
				sub.p.Send(&wamp.Unsubscribe{Request: x.Request + 1, Subscription: x.Subscription})
			case *wamp.Unsubscribed:
				if step(sub) {
					sub.p.Send(&wamp.Subscribe{Request: x.Request + 1, Options: wamp.Dict{}, Topic: "churn.topic"})
				}
			}
		})
		// 3. meta API callers
		metaCalls := []wamp.Call{
			{Procedure: "wamp.session.count"}, {Procedure: "wamp.session.list"},
			{Procedure: "wamp.registration.list"}, {Procedure: "wamp.registration.lookup", Arguments: wamp.List{"churn.proc"}},
			{Procedure: "wamp.registration.match", Arguments: wamp.List{"churn.proc"}},
			{Procedure: "wamp.subscription.list"}, {Procedure: "wamp.subscription.lookup", Arguments: wamp.List{"churn.topic"}},
			{Procedure: "wamp.subscription.match", Arguments: wamp.List{"churn.topic"}},
		}
		var metas []*loop
		for i := 0; i < nMeta; i++ {
			ml := join(fmt.Sprintf("meta API caller %d", i))
			i := i
			next := func(req wamp.ID) {
				t := metaCalls[(int(req)+i)%len(metaCalls)]
				ml.p.Send(&wamp.Call{Request: req, Options: wamp.Dict{}, Procedure: t.Procedure, Arguments: t.Arguments})
			}
			ml.p.SetOnMsg(func(m wamp.Message) {
				var req wamp.ID
				switch x := m.(type) {
				case *wamp.Result:
					req = x.Request
				case *wamp.Error:
					req = x.Request
				default:
					return
				}
				if step(ml) {
					next(req + 1)
				}
			})
			metas = append(metas, ml)
		}
		// 4. meta event observer (just reads)
		obsv := join("meta event observer")
		obsv.done = rounds
		obsv.p.Send(&wamp.Subscribe{Request: 1, Options: wamp.Dict{"match": "prefix"}, Topic: "wamp."})
		// 5. acknowledged publisher
		pub := join("acknowledged publisher")
		pub.p.SetOnMsg(func(m wamp.Message) {
			if x, ok := m.(*wamp.Published); ok && step(pub) {
				pub.p.Send(&wamp.Publish{Request: x.Request + 1, Options: wamp.Dict{"acknowledge": true}, Topic: "churn.topic", Arguments: wamp.List{int(x.Request)}})
			}
		})
		// 6. caller of the churned procedure
		cl := join("caller of the churned procedure")
		cl.p.SetOnMsg(func(m wamp.Message) {
			var req wamp.ID
			switch x := m.(type) {
			case *wamp.Result:
				req = x.Request
			case *wamp.Error:
				req = x.Request
			default:
				return
			}
			if step(cl) {
				cl.p.Send(&wamp.Call{Request: req + 1, Options: wamp.Dict{}, Procedure: "churn.proc", Arguments: wamp.List{int(req)}})
			}
		})
		w.Wait()
		// ---- release everything at once
		reg.p.Send(&wamp.Register{Request: 1, Options: wamp.Dict{}, Procedure: "churn.proc"})
		sub.p.Send(&wamp.Subscribe{Request: 1, Options: wamp.Dict{}, Topic: "churn.topic"})
		for i, ml := range metas {
			t := metaCalls[i%len(metaCalls)]
			ml.p.Send(&wamp.Call{Request: 1, Options: wamp.Dict{}, Procedure: t.Procedure, Arguments: t.Arguments})
		}
		pub.p.Send(&wamp.Publish{Request: 1, Options: wamp.Dict{"acknowledge": true}, Topic: "churn.topic", Arguments: wamp.List{0}})
		cl.p.Send(&wamp.Call{Request: 1, Options: wamp.Dict{}, Procedure: "churn.proc", Arguments: wamp.List{0}})
		if c.Index%8 == 7 {
			// every other concurrent case: the router is closed while all of this is in full swing (meta calls,
			// churn and traffic in flight): Close must return and leave nothing behind
			time.Sleep(time.Duration(c.Rng.IntN(50)) * time.Microsecond)
			c.Hit("ST5")
			returned := w.RunBlocked(func() { w.Router.Close() }, time.Second, 10*time.Second, 2*time.Minute)
			w.MarkClosed()
			if !returned {
				c.Fail("SD1", "router close did not return", "Router.Close() called while closed-loop sessions (churn, meta API, traffic) were running did not return within 2 virtual minutes\n%s", strings.Join(clip(sim.Leaked(), 6), "\n\n"))
			}
			rep := w.Teardown()
			for _, g := range rep.Leaked {
				c.Fail("SD5", "goroutine left after close: "+leakSig(g), "%s", g)
			}
			return
		}
		w.Wait()
		mu.Lock()
		stuck := false
		for _, l := range loops {
			c.Hit("ST5")
			if l.done < rounds {
				stuck = true
			}
		}
		if stuck {
			var st []string
			for _, l := range loops {
				st = append(st, fmt.Sprintf("%s (P%d %s): %d of %d rounds", l.name, l.p.Idx, l.p.Kind, l.done, rounds))
			}
			var blocked []string
			for _, g := range sim.Leaked() {
				if strings.Contains(g, "[chan send") || strings.Contains(g, "[chan receive") || strings.Contains(g, "[select") {
					if strings.Contains(g, "router.(*dealer)") || strings.Contains(g, "router.(*broker)") || strings.Contains(g, "router.(*realm)") {
						blocked = append(blocked, g)
					}
				}
			}
			c.Fail("ST5", "closed-loop request never answered: "+blockedSig(blocked), "all goroutines are blocked but not every request was answered (nobody stopped reading): %s\nrouter goroutines:\n%s",
				strings.Join(st, "; "), strings.Join(clip(blocked, 8), "\n\n"))
		}
		mu.Unlock()
		w.Advance(1)
		rep := w.Teardown()
		if !rep.CloseReturned {
			c.Fail("SD1", "router close did not return", "Router.Close() did not return after the concurrent workload")
		}
	})
	if panicText != "" {
		c.Fail("RB1", "bubble panic: "+firstLine(panicText), "%s", panicText)
	}
	total := 0
	for _, l := range loops {
		total += l.done
	}
	c.NT = total >= 100
	c.Add("closed_loop_rounds", float64(total))
	c.Key = fmt.Sprintf("concurrent procs=%d rounds=%d meta=%d seed=%d", procs, rounds, nMeta, c.Index)
	c.Sample = map[string]any{"workload": "concurrent closed loops, nobody stalled", "gomaxprocs": procs, "rounds_per_loop": rounds, "meta_callers": nMeta, "rounds_completed": total}
}

// blockedSig names the innermost router functions the blocked goroutines are in.
func blockedSig(gs []string) string {
	seen := map[string]bool{}
	var out []string
	for _, g := range gs {
		s := leakSig(g)
		if !seen[s] {
			seen[s] = true
			out = append(out, s)
		}
	}
	if len(out) > 3 {
		out = out[:3]
	}
	return strings.Join(out, " + ")
}
