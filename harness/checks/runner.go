package checks

import (
	"errors"
	"fmt"
	"sort"
	"strings"
	"time"

	"github.com/gammazero/nexus/v3/router"
	"github.com/gammazero/nexus/v3/router/auth"
	"github.com/gammazero/nexus/v3/wamp"

	"verif/harness/model"
	"verif/harness/sim"
)

// tableAuth is a harness-supplied Authenticator (method "vtable"): the
// authid offered in HELLO selects a row of a static table that fixes the
// authrole. It stands for "some configured authenticator" in the workloads
// that need sessions with distinct router-assigned identities.
type tableAuth struct{ roles map[string]string }

func (a *tableAuth) AuthMethod() string { return "vtable" }
func (a *tableAuth) Authenticate(sid wamp.ID, details wamp.Dict, client wamp.Peer) (*wamp.Welcome, error) {
	id, _ := wamp.AsString(details["authid"])
	role, ok := a.roles[id]
	if !ok {
		return nil, errors.New("unknown authid")
	}
	return &wamp.Welcome{Details: wamp.Dict{"authid": id, "authrole": role, "authprovider": "vtable"}}, nil
}

var _ auth.Authenticator = (*tableAuth)(nil)

// authTable is the identity table used by all worlds.
var authTable = map[string]string{"alice": "admin", "bob": "user", "carol": "user", "dave": "guest", "erin": "admin", "frank": "guest"}
var authIDs = []string{"alice", "bob", "carol", "dave", "erin", "frank"}

// RealmSetup is a realm of a world.
type RealmSetup struct {
	model.RealmSpec
	Authorizer        router.Authorizer
	RequireLocalAuthz bool
	RequireLocalAuth  bool
	MetaStrict        bool
}

func (rs RealmSetup) config() *router.RealmConfig {
	rc := &router.RealmConfig{
		URI: wamp.URI(rs.Name), StrictURI: rs.Strict, AnonymousAuth: true, AllowDisclose: rs.AllowDisclose,
		Authenticators: []auth.Authenticator{&tableAuth{roles: authTable}, auth.NewCRAuthenticator(c04Keys{}, time.Minute)}, EnableMetaKill: rs.MetaKill,
		Authorizer: rs.Authorizer, RequireLocalAuthz: rs.RequireLocalAuthz, RequireLocalAuth: rs.RequireLocalAuth, MetaStrict: rs.MetaStrict,
	}
	for _, h := range rs.History {
		rc.TopicEventHistoryConfigs = append(rc.TopicEventHistoryConfigs, &router.TopicEventHistoryConfig{Topic: wamp.URI(h.Topic), MatchPolicy: h.Match, Limit: h.Limit})
	}
	return rc
}

// PuppetSetup describes a puppet to create.
type PuppetSetup struct {
	Kind     sim.Kind
	Realm    string
	AuthID   string
	Extra    map[string]string
	Features map[string][]string // nil: all features
	QSize    int
	TDetails wamp.Dict
	LocalAuth bool // the realm requires authentication of in-process peers too
}

func (ps PuppetSetup) hello() wamp.Dict {
	d := wamp.Dict{}
	if ps.Features == nil {
		d["roles"] = sim.AllFeatures()
	} else {
		d["roles"] = sim.Roles(ps.Features)
	}
	if ps.AuthID != "" {
		d["authid"] = ps.AuthID
		if ps.Kind != sim.Local || ps.LocalAuth {
			d["authmethods"] = wamp.List{"vtable"}
		}
	}
	for k, v := range ps.Extra {
		d[k] = v
	}
	return d
}

func (ps PuppetSetup) String() string {
	f := "all"
	if ps.Features != nil {
		var parts []string
		for r, fs := range ps.Features {
			parts = append(parts, r+":"+strings.Join(fs, "+"))
		}
		sort.Strings(parts)
		f = strings.Join(parts, ",")
	}
	return fmt.Sprintf("%s realm=%s authid=%q extra=%v features=%s q=%d", ps.Kind, ps.Realm, ps.AuthID, ps.Extra, f, ps.QSize)
}

// Runner executes a script in lock-step against a world and its monitor.
type Runner struct {
	C       *Case
	W       *sim.World
	Mon     *model.Monitor
	Setups  []PuppetSetup
	Steps   int
	arrival []string // cross-session arrival order fingerprint
}

// NewRunner builds the world (inside a bubble) and the monitor.
func NewRunner(c *Case, realms []RealmSetup, template *RealmSetup) (*Runner, error) {
	cfg := &router.Config{}
	var specs []model.RealmSpec
	for _, rs := range realms {
		cfg.RealmConfigs = append(cfg.RealmConfigs, rs.config())
		specs = append(specs, rs.RealmSpec)
	}
	if template != nil {
		cfg.RealmTemplate = template.config()
	}
	w, err := sim.NewWorld(cfg)
	if err != nil {
		return nil, err
	}
	r := &Runner{C: c, W: w}
	r.Mon = model.NewMonitor(c, w.Now, specs...)
	return r, nil
}

func (r *Runner) collect() map[int][]sim.Obs {
	out := map[int][]sim.Obs{}
	for _, p := range r.W.Puppets {
		obs := p.Take()
		if len(obs) > 0 {
			out[p.Idx] = obs
		}
	}
	return out
}

func (r *Runner) traceObs(obs map[int][]sim.Obs) {
	keys := make([]int, 0, len(obs))
	for k := range obs {
		keys = append(keys, k)
	}
	sort.Ints(keys)
	type so struct {
		p int
		o sim.Obs
	}
	var all []so
	for _, k := range keys {
		for _, o := range obs[k] {
			all = append(all, so{k, o})
		}
	}
	sort.Slice(all, func(i, j int) bool { return all[i].o.Seq < all[j].o.Seq })
	for _, x := range all {
		switch {
		case x.o.Closed:
			r.C.Tracef("      P%d <- [transport closed] t=%v", x.p, x.o.At)
		case x.o.Msg != nil:
			r.C.Tracef("      P%d <- %s t=%v", x.p, x.o.Snap, x.o.At)
			r.arrival = append(r.arrival, fmt.Sprintf("%d:%d", x.p, x.o.Msg.MessageType()))
		default:
			r.C.Tracef("      P%d <- frame type=%d len=%d %s", x.p, x.o.Frame, len(x.o.Raw), x.o.Err)
		}
	}
}

// Join attaches a new puppet and lets the monitor check the join.
func (r *Runner) Join(ps PuppetSetup) *sim.Puppet {
	p, _ := r.join(ps)
	return p
}

// JoinObs is Join returning everything every puppet observed during the join.
func (r *Runner) JoinObs(ps PuppetSetup) map[int][]sim.Obs {
	_, obs := r.join(ps)
	return obs
}

func (r *Runner) join(ps PuppetSetup) (*sim.Puppet, map[int][]sim.Obs) {
	p := r.W.AddPuppet(sim.PuppetSpec{Kind: ps.Kind, QSize: ps.QSize, TransportDetails: ps.TDetails})
	r.Setups = append(r.Setups, ps)
	hello := ps.hello()
	op := model.Op{Kind: model.OpJoin, P: p.Idx, Join: &model.JoinSpec{Realm: ps.Realm, AuthID: ps.AuthID, Extra: ps.Extra, Features: ps.Features}}
	r.C.Tracef("[%d] %v  (%v)", r.Steps, op, ps)
	r.Steps++
	p.Send(&wamp.Hello{Realm: wamp.URI(ps.Realm), Details: hello})
	r.W.Wait()
	obs := r.collect()
	r.traceObs(obs)
	var welcome *wamp.Welcome
	for _, o := range obs[p.Idx] {
		if w, ok := o.Msg.(*wamp.Welcome); ok {
			welcome = w
			p.SID, p.Welcome = w.ID, w
		}
	}
	r.Mon.ObserveJoin(op, model.JoinInfo{Idx: p.Idx, Realm: ps.Realm, Kind: ps.Kind, Hello: hello, Welcome: welcome}, obs)
	return p, obs
}

// Exec performs one op and checks it.
func (r *Runner) Exec(op model.Op) { r.ExecObs(op) }

// ExecObs performs one op, checks it and returns what every puppet observed.
func (r *Runner) ExecObs(op model.Op) map[int][]sim.Obs {
	r.C.Tracef("[%d] %v", r.Steps, op)
	r.Steps++
	switch op.Kind {
	case model.OpAdvance:
		r.W.Advance(op.D)
	case model.OpStall:
		r.W.Puppets[op.P].Stall()
		r.W.Wait()
	case model.OpResume:
		r.W.Puppets[op.P].Resume()
		r.W.Wait()
	case model.OpLeave:
		p := r.W.Puppets[op.P]
		if op.How == model.LeaveDrop {
			r.Mon.Build(op)
			p.Drop()
		} else {
			p.Send(r.Mon.Build(op))
		}
		r.W.Wait()
	default:
		msg := r.Mon.Build(op)
		if msg != nil {
			r.W.Puppets[op.P].Send(msg)
		}
		r.W.Wait()
	}
	obs := r.collect()
	r.traceObs(obs)
	r.Mon.Observe(op, obs)
	return obs
}

// Finish tears the world down and reports close/leak findings as rule ids.
func (r *Runner) Finish() sim.TeardownReport {
	rep := r.W.Teardown()
	if !rep.CloseReturned {
		r.C.Fail("SD1", "router close did not return", "Router.Close() did not return within 12 virtual minutes at the end of the script")
	}
	for _, g := range rep.Leaked {
		r.C.Fail("SD5", "goroutine left after close: "+leakSig(g), "goroutine with nexus frames still alive 2 virtual hours after Router.Close():\n%s", g)
	}
	r.C.Inter = hashKey(strings.Join(r.arrival, ","))
	return rep
}

func leakSig(g string) string {
	for _, line := range strings.Split(g, "\n") {
		if strings.Contains(line, "gammazero/nexus/v3/") && !strings.HasPrefix(line, "\t") {
			s := line[strings.Index(line, "nexus/v3/")+len("nexus/v3/"):]
			if i := strings.LastIndex(s, "("); i > 0 {
				s = s[:i]
			}
			return s
		}
	}
	return "?"
}

var _ = time.Second
