package checks

import (
	"fmt"
	"strings"

	"verif/harness/model"
	"verif/harness/sim"
)

// C01 — Pub/Sub delivers each event to exactly the matching, eligible
// subscribers. Engine "bubble", lock-step against the pubsub reference model.

func init() {
	register(&Prop{
		ID: "C01",
		Cases: func(tier string) int {
			if tier == "thorough" {
				return 24000
			}
			return 1600
		},
		Batch: func(tier string) int {
			if tier == "thorough" {
				return 500
			}
			return 100
		},
		Run: runC01,
		Rule: "each case is a generated script (3-8 sessions over local/rawsocket/websocket with distinct authid/authrole/team, 20-60 steps of " +
			"SUBSCRIBE/UNSUBSCRIBE(own, foreign, unknown)/PUBLISH (35% of the realms with 1-3 event-history topics) with random acknowledge, exclude_me, exclude, eligible, exclude_*/eligible_* options, joins and departures) " +
			"run in lock-step against the pubsub reference model with a catch-all observer; non-trivial = the script contains a publication with >=1 predicted receiver and " +
			">=1 subscriber cut by exclude_me or a filter, on a table holding >=2 match policies; distinct = hash of the canonical script",
		Required: []string{"PS1", "PS2", "PS3", "PS4", "PS5", "PS6", "PS7", "PS8", "PS9"},
		Level:    "exploration",
	})
}

func genPublishOpts(g *scriptGen, nPuppets int, allowDisclose bool) map[string]any {
	r := g.rng
	o := map[string]any{}
	if chance(r, 60) {
		o["acknowledge"] = true
	} else if chance(r, 10) {
		o["acknowledge"] = false
	}
	switch r.IntN(5) {
	case 0:
		o["exclude_me"] = false
	case 1:
		o["exclude_me"] = true
	}
	if chance(r, 15) {
		o["exclude"] = refsTo(somePuppets(r, nPuppets, 3)...)
	}
	if chance(r, 15) {
		o["eligible"] = refsTo(somePuppets(r, nPuppets, 4)...)
	}
	strs := func(pool []string) []any {
		n := 1 + r.IntN(2)
		out := make([]any, 0, n)
		for i := 0; i < n; i++ {
			out = append(out, pick(r, pool))
		}
		return out
	}
	if chance(r, 10) {
		o["exclude_authid"] = strs(authIDs)
	}
	if chance(r, 10) {
		o["eligible_authid"] = strs(authIDs)
	}
	if chance(r, 10) {
		o["exclude_authrole"] = strs(authRoles)
	}
	if chance(r, 10) {
		o["eligible_authrole"] = strs(authRoles)
	}
	if chance(r, 8) {
		o["exclude_team"] = strs(teams)
	}
	if chance(r, 8) {
		o["eligible_team"] = strs(teams)
	}
	if chance(r, 8) {
		o["disclose_me"] = chance(r, 80)
	}
	return o
}

// withPPT adds payload passthru options to some publications (only for publishers that announced the
// feature): the router copies them into EVENT.Details, and into nobody else's events.
func withPPT(g *scriptGen, o map[string]any, allowDisclose bool) map[string]any {
	r := g.rng
	if !chance(r, 12) {
		return o
	}
	o["ppt_scheme"] = pick(r, []string{"x_custom", "mqtt"})
	o["ppt_serializer"] = "native"
	if chance(r, 60) {
		o["ppt_keyid"] = fmt.Sprintf("key-%d", r.IntN(1000))
	}
	if chance(r, 40) {
		o["ppt_cipher"] = "xsalsa20poly1305"
	}
	if !allowDisclose && chance(r, 50) {
		o["disclose_me"] = true // refused in this realm: nothing of this publication may show up anywhere
		o["acknowledge"] = true
	}
	return o
}

func runC01(c *Case) {
	g := newScriptGen(c)
	r := c.Rng
	realm := RealmSetup{RealmSpec: model.RealmSpec{Name: "realm1", Strict: chance(r, 30), AllowDisclose: chance(r, 50)}}
	if chance(r, 35) {
		// topics with event history keep their subscription while nobody is subscribed
		realm.History = randomHistory(r)
	}
	nPup := 3 + r.IntN(6)
	netPct := 50
	if c.Tier == "quick" {
		netPct = 40
	}
	var setups []PuppetSetup
	for i := 0; i < nPup; i++ {
		setups = append(setups, randomPuppet(r, realm.Name, netPct))
	}
	nSteps := 20 + r.IntN(41)
	var script []string
	panicText := c.Bubble(func() {
		run, err := NewRunner(c, []RealmSetup{realm}, nil)
		if err != nil {
			c.Fail("HARNESS", "world", "cannot create world: %v", err)
			return
		}
		run.Mon.CheckDisclose = true
		for _, ps := range setups {
			run.Join(ps)
		}
		// catch-all observer: "nobody else receives anything"
		run.Exec(model.Op{Kind: model.OpSubscribe, P: 0, Req: g.nextReq(0), URI: "", Opts: matchOpts("prefix")})
		alive := func() []int {
			var out []int
			for i := range run.W.Puppets {
				if s := run.Mon.Sess[i]; s != nil && s.Alive {
					out = append(out, i)
				}
			}
			return out
		}
		type sk struct {
			p        int
			uri, pol string
		}
		var held []sk // (puppet, key) pairs that were subscribed at some point
		for step := 0; step < nSteps; step++ {
			al := alive()
			if len(al) == 0 {
				break
			}
			p := pick(r, al)
			var op model.Op
			switch x := r.IntN(100); {
			case x < 34:
				uri, m := g.topicAndMatch(12)
				if realm.Strict && chance(r, 10) {
					uri = pick(r, poolStrictNo)
				}
				op = model.Op{Kind: model.OpSubscribe, P: p, Req: g.nextReq(p), URI: uri, Opts: matchOpts(m)}
				held = append(held, sk{p, uri, model.NormMatch(m)})
			case x < 46:
				op = model.Op{Kind: model.OpUnsubscribe, P: p, Req: g.nextReq(p)}
				switch y := r.IntN(10); {
				case y < 6 && len(held) > 0: // a key somebody subscribed (own or foreign)
					h := pick(r, held)
					if chance(r, 65) { // prefer own
						for _, cand := range held {
							if cand.p == p {
								h = cand
								break
							}
						}
					}
					op.Target = model.Ref{Kind: "sub", Topic: h.uri, Match: h.pol}
				case y < 8:
					op.Target = model.Ref{Kind: "raw", Raw: uint64(1 + r.IntN(40))}
				default:
					op.Target = model.Ref{Kind: "raw", Raw: uint64(1)<<53 - uint64(r.IntN(3))}
				}
			case x < 90:
				uri := pick(r, poolTopics)
				if chance(r, 8) {
					uri = pick(r, poolInvalid)
				}
				if realm.Strict && chance(r, 8) {
					uri = pick(r, poolStrictNo)
				}
				args, kw := g.payload()
				op = model.Op{Kind: model.OpPublish, P: p, Req: g.nextReq(p), URI: uri, Opts: withPPT(g, genPublishOpts(g, len(run.W.Puppets), realm.AllowDisclose), realm.AllowDisclose), Args: args, Kw: kw}
			case x < 95:
				if len(run.W.Puppets) < 10 {
					ps := randomPuppet(r, realm.Name, netPct)
					script = append(script, "join "+ps.String())
					run.Join(ps)
				}
				continue
			default:
				if p == 0 {
					continue // keep the observer
				}
				op = model.Op{Kind: model.OpLeave, P: p, How: pick(r, []string{model.LeaveGoodbye, model.LeaveDrop, model.LeaveViolation})}
			}
			script = append(script, op.String())
			run.Exec(op)
		}
		c.NT = run.Mon.NTPubs > 0
		c.Add("publications_with_cut_and_receiver", float64(run.Mon.FilterCuts))
		c.Add("steps", float64(run.Steps))
		run.Finish()
	})
	if panicText != "" {
		c.Fail("RB1", "bubble panic: "+firstLine(panicText), "%s", panicText)
	}
	var sb strings.Builder
	for _, ps := range setups {
		sb.WriteString(ps.String() + ";")
	}
	c.Key = fmt.Sprintf("strict=%v disclose=%v|%s|%s", realm.Strict, realm.AllowDisclose, sb.String(), strings.Join(script, "\n"))
	if c.Index < 3 || len(c.Viol) > 0 {
		c.Sample = map[string]any{"realm": fmt.Sprintf("strict=%v allow_disclose=%v", realm.Strict, realm.AllowDisclose),
			"sessions": puppetStrings(setups), "script": clip(script, 80)}
	}
}

func puppetStrings(s []PuppetSetup) []string {
	out := make([]string, len(s))
	for i, ps := range s {
		out[i] = fmt.Sprintf("P%d %s", i, ps)
	}
	return out
}

func clip(l []string, n int) []string {
	if len(l) > n {
		return append(append([]string{}, l[:n]...), fmt.Sprintf("... %d more", len(l)-n))
	}
	return l
}

func firstLine(s string) string {
	if i := strings.IndexByte(s, '\n'); i >= 0 {
		s = s[:i]
	}
	if len(s) > 120 {
		s = s[:120]
	}
	return s
}

var _ = sim.Local
