package checks

import (
	"fmt"
	"strings"
	"time"

	"github.com/gammazero/nexus/v3/wamp"

	"verif/harness/model"
	"verif/harness/sim"
)

// C11 — nothing crosses realm boundaries. Engine "bubble": the same script is
// run simultaneously in 2-3 realms (static and template-created) with
// identical URIs and request ids, so that router-assigned subscription and
// registration ids collide by construction; every realm has its own lock-step
// model with a catch-all observer and a meta observer, so anything crossing a
// realm boundary is an unpredicted message; cross-realm attack ops use ids
// that are only valid in the other realm; realms are removed and re-added at
// run time.

func init() {
	register(&Prop{
		ID: "C11", Cases: rpcCases(800, 16000), Batch: rpcBatch,
		Run: runC11,
		Rule: "each case: 2-3 realms (static; one may be created from the realm template by the first HELLO), each with the same 3-4 sessions; every generated step (subscribe/publish/register/call/" +
			"yield/cancel/unregister/meta calls/testaments/departures) is executed in every realm with the same URIs and request ids; attack steps send UNSUBSCRIBE/UNREGISTER/YIELD/CANCEL/" +
			"wamp.session.kill/get/list_subscribers with ids taken from another realm's state; RemoveRealm/AddRealm mid-script; per-realm lock-step models (incl. meta events) must predict every message; " +
			"non-trivial = >=1 router-assigned id was live in two realms at once and >=1 attack step used an id of another realm",
		Required: []string{"PS6", "RP10", "MT5", "SD3"},
		Level:    "exploration",
	})
}

func runC11(c *Case) {
	g := newScriptGen(c)
	r := c.Rng
	nRealms := 2 + r.IntN(2)
	perRealm := 3 + r.IntN(2)
	base := model.RealmSpec{Strict: false, AllowDisclose: chance(r, 50), MetaKill: true}
	if chance(r, 40) {
		// the same event-history topics in every realm (static ones and the one made from the template)
		base.History = randomHistory(r)
	}
	useTemplate := chance(r, 50)
	var realms []RealmSetup
	names := []string{}
	for k := 0; k < nRealms; k++ {
		rs := base
		rs.Name = []string{"realm.x", "Realm.x", "REALM.X"}[k]
		names = append(names, rs.Name)
		if useTemplate && k == nRealms-1 {
			continue // created from the template by the first HELLO
		}
		realms = append(realms, RealmSetup{RealmSpec: rs})
	}
	var tmpl *RealmSetup
	if useTemplate {
		t := RealmSetup{RealmSpec: base}
		tmpl = &t
	}
	var script []string
	collide, attacks := 0, 0
	panicText := c.Bubble(func() {
		run, err := NewRunner(c, realms, tmpl)
		if err != nil {
			c.Fail("HARNESS", "world", "cannot create world: %v", err)
			return
		}
		run.Mon.TrackMeta = true
		if useTemplate {
			rs := base
			rs.Name = names[nRealms-1]
			run.Mon.AddRealm(rs)
		}
		// sessions: column i of every realm has the same setup
		var setups []PuppetSetup
		for i := 0; i < perRealm; i++ {
			ps := randomPuppet(r, "", 50)
			ps.Features = nil
			setups = append(setups, ps)
		}
		for k := 0; k < nRealms; k++ {
			for i := 0; i < perRealm; i++ {
				ps := setups[i]
				ps.Realm = names[k]
				run.Join(ps)
			}
		}
		alive := make([]bool, nRealms)
		for k := range alive {
			alive[k] = true
		}
		// exec runs the op (written for realm 0 puppets) in every live realm
		exec := func(op model.Op) {
			script = append(script, op.String())
			for k := 0; k < nRealms; k++ {
				if !alive[k] {
					continue
				}
				o := shiftOp(op, k*perRealm)
				if s := run.Mon.Sess[o.P]; op.Kind != model.OpAdvance && (s == nil || !s.Alive) {
					continue
				}
				run.Exec(o)
				if op.Kind == model.OpAdvance {
					break // the clock is global
				}
			}
		}
		// observers in every realm
		exec(model.Op{Kind: model.OpSubscribe, P: 0, Req: g.nextReq(0), URI: "", Opts: matchOpts("prefix")})
		type sk struct{ uri, pol string }
		var held []sk
		var procs []sk
		nSteps := 18 + r.IntN(25)
		for step := 0; step < nSteps; step++ {
			p := r.IntN(perRealm)
			switch x := r.IntN(100); {
			case x < 14:
				uri, m := g.topicAndMatch(5)
				exec(model.Op{Kind: model.OpSubscribe, P: p, Req: g.nextReq(p), URI: uri, Opts: matchOpts(m)})
				held = append(held, sk{uri, model.NormMatch(m)})
			case x < 20 && len(held) > 0:
				h := pick(r, held)
				exec(model.Op{Kind: model.OpUnsubscribe, P: p, Req: g.nextReq(p), Target: model.Ref{Kind: "sub", Topic: h.uri, Match: h.pol}})
			case x < 38:
				args, kw := g.payload()
				exec(model.Op{Kind: model.OpPublish, P: p, Req: g.nextReq(p), URI: pick(r, poolTopics), Opts: withPPT(g, genPublishOpts(g, perRealm, base.AllowDisclose), base.AllowDisclose), Args: args, Kw: kw})
			case x < 50:
				uri, m := g.topicAndMatch(5)
				if m == "" || m == "exact" {
					uri = pick(r, procPool)
				}
				opts := matchOpts(m)
				if inv := pick(r, []string{"", "first", "last", "roundrobin"}); inv != "" {
					opts["invoke"] = inv
				}
				exec(model.Op{Kind: model.OpRegister, P: p, Req: g.nextReq(p), URI: uri, Opts: opts})
				procs = append(procs, sk{uri, model.NormMatch(m)})
			case x < 55 && len(procs) > 0:
				h := pick(r, procs)
				exec(model.Op{Kind: model.OpUnregister, P: p, Req: g.nextReq(p), Target: model.Ref{Kind: "reg", Topic: h.uri, Match: h.pol}})
			case x < 67:
				args, kw := g.payload()
				opts := map[string]any{}
				if chance(r, 25) {
					opts["timeout"] = 2000
				}
				exec(model.Op{Kind: model.OpCall, P: p, Req: g.nextReq(p), URI: pick(r, procPool), Opts: opts, Args: args, Kw: kw})
			case x < 77:
				// answer a pending call of realm 0 (same step in the other realms; ownership may differ there)
				for _, pc := range run.Mon.PendingCalls() {
					if pc.Realm == names[0] && !pc.Abandoned {
						args, kw := g.payload()
						exec(model.Op{Kind: model.OpYield, P: pc.Callee, Target: model.Ref{Kind: "inv", P: pc.Caller, Req: pc.Req}, Opts: map[string]any{}, Args: args, Kw: kw})
						break
					}
				}
			case x < 81:
				for _, pc := range run.Mon.PendingCalls() {
					if pc.Realm == names[0] && !pc.Abandoned {
						exec(model.Op{Kind: model.OpCancel, P: pc.Caller, Req: pc.Req, Opts: map[string]any{"mode": pick(r, []string{"skip", "kill", "killnowait"})}})
						break
					}
				}
			case x < 90:
				// cross-realm attack: a session of realm a uses an id that is valid in realm b only
				a, b := r.IntN(nRealms), r.IntN(nRealms)
				if a == b || !alive[a] || !alive[b] {
					continue
				}
				att := a*perRealm + p
				if s := run.Mon.Sess[att]; s == nil || !s.Alive {
					continue
				}
				victim := b*perRealm + r.IntN(perRealm)
				vs := run.Mon.Sess[victim]
				if vs == nil || !vs.Alive {
					continue
				}
				req := 5000 + uint64(step)
				var op model.Op
				switch r.IntN(6) {
				case 0:
					op = model.Op{Kind: model.OpMetaCall, P: att, Req: req, URI: "wamp.session.kill", Args: []any{model.Ref{Kind: "raw", Raw: vs.SID}}}
				case 1:
					op = model.Op{Kind: model.OpMetaCall, P: att, Req: req, URI: "wamp.session.get", Args: []any{model.Ref{Kind: "raw", Raw: vs.SID}}}
				case 2:
					op = model.Op{Kind: model.OpPublish, P: att, Req: req, URI: pick(r, poolTopics), Opts: map[string]any{"acknowledge": true, "eligible": []any{model.Ref{Kind: "raw", Raw: vs.SID}}}, Args: []any{"attack"}}
				case 3:
					var inv uint64
					for _, pc := range run.Mon.PendingCalls() {
						if pc.Realm == names[b] {
							inv = pc.Inv
						}
					}
					if inv == 0 {
						continue
					}
					op = model.Op{Kind: model.OpYield, P: att, Target: model.Ref{Kind: "raw", Raw: inv}, Opts: map[string]any{}, Args: []any{"attack"}}
				case 4:
					op = model.Op{Kind: model.OpMetaCall, P: att, Req: req, URI: "wamp.session.list"}
				default:
					op = model.Op{Kind: model.OpMetaCall, P: att, Req: req, URI: "wamp.session.count"}
				}
				attacks++
				script = append(script, "attack "+op.String())
				run.Exec(op)
			case x < 93:
				exec(model.Op{Kind: model.OpLeave, P: 1 + r.IntN(perRealm-1), How: pick(r, []string{model.LeaveGoodbye, model.LeaveDrop})})
			case x < 96:
				exec(model.Op{Kind: model.OpAdvance, D: time.Second})
			default:
				// remove a realm (not realm 0), sometimes add it again with fresh sessions
				k := 1 + r.IntN(nRealms-1)
				if !alive[k] {
					continue
				}
				script = append(script, "RemoveRealm "+names[k])
				c.Tracef("[%d] RemoveRealm %s", run.Steps, names[k])
				returned := run.W.RunBlocked(func() { run.W.Router.RemoveRealm(wamp.URI(names[k])) }, time.Second, time.Minute, 10*time.Minute)
				c.Hit("SD1")
				if !returned {
					c.Fail("SD1", "RemoveRealm did not return", "RemoveRealm(%s) did not return within 11 virtual minutes", names[k])
				}
				obs := run.collect()
				run.traceObs(obs)
				run.Mon.ObserveRemoveRealm(names[k], obs)
				alive[k] = false
			}
			// measure id collisions
			ids := map[uint64]int{}
			for _, rg := range run.Mon.Registrations() {
				if rg.ID != 0 {
					ids[rg.ID]++
				}
			}
			for _, n := range ids {
				if n >= 2 {
					collide++
					break
				}
			}
		}
		exec(model.Op{Kind: model.OpAdvance, D: time.Hour})
		c.NT = collide > 0 && attacks > 0
		c.Add("steps", float64(run.Steps))
		c.Add("attack_steps", float64(attacks))
		run.Finish()
	})
	if panicText != "" {
		c.Fail("RB1", "bubble panic: "+firstLine(panicText), "%s", panicText)
	}
	c.Key = fmt.Sprintf("realms=%d per=%d tmpl=%v|", nRealms, perRealm, useTemplate) + strings.Join(script, "\n")
	if c.Index < 3 || len(c.Viol) > 0 {
		c.Sample = map[string]any{"realms": names, "template_created_last": useTemplate, "sessions_per_realm": perRealm, "script": clip(script, 70)}
	}
}

var _ = sim.Local
