package checks

import (
	"fmt"
	"math"
	"math/rand/v2"
	"os"
	"reflect"
	"strings"
	"unicode/utf8"

	"github.com/ugorji/go/codec"

	"github.com/gammazero/nexus/v3/transport/serialize"
	"github.com/gammazero/nexus/v3/wamp"

	"verif/harness/canon"
)

// C14 — serializers round-trip every message and agree with each other;
// arbitrary bytes never panic and yield error xor message. Engine "pure".

var allCodes = []wamp.MessageType{1, 2, 3, 4, 5, 6, 8, 16, 17, 32, 33, 34, 35, 36, 48, 49, 50, 64, 65, 66, 67, 68, 69, 70}

type fmtSer struct {
	name   string
	ser    serialize.Serializer
	binary bool         // format has a binary type
	h      codec.Handle // harness-owned handle for the independent generic decode
}

func formats() []fmtSer {
	jh := &codec.JsonHandle{}
	jh.MapType = reflect.TypeFor[map[string]any]()
	mh := &codec.MsgpackHandle{}
	mh.WriteExt = true
	mh.MapType = reflect.TypeFor[map[string]any]()
	ch := &codec.CborHandle{}
	ch.MapType = reflect.TypeFor[map[string]any]()
	return []fmtSer{
		{"json", &serialize.JSONSerializer{}, false, jh},
		{"msgpack", &serialize.MessagePackSerializer{}, true, mh},
		{"cbor", &serialize.CBORSerializer{}, true, ch},
	}
}

func init() {
	register(&Prop{
		ID: "C14",
		Cases: func(tier string) int {
			if tier == "thorough" {
				return 1200
			}
			return 96
		},
		Batch: func(tier string) int {
			if tier == "thorough" {
				return 40
			}
			return 6
		},
		Run: runC14,
		Asan: func(tier string) int {
			if tier == "thorough" {
				return 120
			}
			return 12
		},
		Rule: "even cases: 90 messages nested 8..200 levels deep plus 400 generated messages (all 24 types round-robin; payload depth<=6, width<=8; boundary integers up to +-2^53, floats incl. integral/-0/subnormal/1e308, " +
			"strings incl. multi-byte/U+2028/controls/quotes, null, bool, empty and nested containers, binary) x 3 formats: round-trip, cross-format canonical equality and encoded-list shape; " +
			"odd cases: 2000 (thorough: 6000) hostile byte strings (random, and mutations of valid encodings: bit flips, truncation, splices, length edits, type-code swaps, deep nesting, huge declared lengths) into " +
			"Deserialize and DeserializeDataItem of each format: no panic, error xor message, message only if an independent generic decode is a list headed by a known code with kind-compatible fields; " +
			"non-trivial = case with a message of payload depth>=2 or a boundary number, resp. a byte string that decodes generically to a list",
		Required: []string{"SE1", "SE2", "SE3", "SE4", "SE5"},
		Level:    "exploration",
		Build:    "checkptr",
	})
}

// ---- value generator -------------------------------------------------------

var boundaryInts = []int64{0, 1, -1, 127, 128, 255, 256, -128, -129, 65535, 65536, 1<<31 - 1, 1 << 31, 1<<31 + 1, -(1 << 31), -(1<<31 + 1),
	1<<32 - 1, 1 << 32, 1<<32 + 1, 1<<53 - 1, 1 << 53, -(1<<53 - 1), -(1 << 53)}
var floatPool = []float64{0.5, -0.5, 2.5, 3.0, -7.0, 1e308, -1e308, 5e-324, 1.7976931348623157e308, 0.1, 1.0 / 3.0, 123456789.125, math.Copysign(0, -1), 1e15 + 0.5, 4294967296.0}
var stringPool = []string{"", "a", "hello", "com.example.topic", "é", "日本語", "  ", "tab\tnl\ncr\r", "quote\"back\\slash", "<>&'", "\x00nul", "\x7f", "😀", " ", "null", "true", "0"}

type valGen struct {
	r        *rand.Rand
	binary   bool
	maxDepth int
	boundary bool
	depthHit int
	big      bool // allow integral floats of magnitude > 2^53
	bigFloat bool // such a float was generated
}

func (g *valGen) value(depth int) any {
	r := g.r
	if depth > g.depthHit {
		g.depthHit = depth
	}
	k := r.IntN(12)
	if depth >= g.maxDepth && k >= 8 {
		k = r.IntN(8)
	}
	switch k {
	case 0:
		return nil
	case 1:
		return r.IntN(2) == 0
	case 2:
		g.boundary = true
		n := pick(r, boundaryInts)
		switch r.IntN(4) {
		case 0:
			return n
		case 1:
			return int(n)
		case 2:
			if n >= 0 {
				return uint64(n)
			}
			return n
		default:
			if n >= math.MinInt32 && n <= math.MaxInt32 {
				return int32(n)
			}
			return n
		}
	case 3:
		return int64(r.Uint64N(1<<53+1)) * int64(1-2*r.IntN(2))
	case 4:
		return pick(r, floatPool)
	case 5:
		f := r.NormFloat64() * math.Pow(10, float64(r.IntN(30)-10))
		if f == math.Trunc(f) && math.Abs(f) > 1<<53 {
			// integral floats beyond 2^53 are indistinguishable from integers outside the
			// WAMP data model once written as JSON; they are generated on purpose only
			// by the bigFloat branch below
			if g.big {
				g.bigFloat = true
				return f
			}
			return math.Ldexp(f, -12) + 0.5
		}
		return f
	case 6:
		return pick(r, stringPool)
	case 7:
		if g.binary && r.IntN(2) == 0 {
			b := make([]byte, r.IntN(20))
			for i := range b {
				b[i] = byte(r.IntN(256))
			}
			return b
		}
		n := r.IntN(24)
		var sb strings.Builder
		for i := 0; i < n; i++ {
			sb.WriteRune(rune(pick(r, []int{'a', 'z', '0', '.', '_', ' ', 0xe9, 0x65e5, 0x1F600, '"', '\\', '\n'})))
		}
		return sb.String()
	case 8, 9:
		n := r.IntN(9)
		l := make(wamp.List, n)
		for i := range l {
			l[i] = g.value(depth + 1)
		}
		if r.IntN(3) == 0 {
			return []any(l)
		}
		return l
	default:
		n := r.IntN(9)
		d := make(wamp.Dict, n)
		for i := 0; i < n; i++ {
			d[pick(r, stringPool)+fmt.Sprint(i)] = g.value(depth + 1)
		}
		if r.IntN(3) == 0 {
			return map[string]any(d)
		}
		return d
	}
}

func (g *valGen) list(min int) wamp.List {
	n := min + g.r.IntN(5)
	if n == 0 {
		if g.r.IntN(2) == 0 {
			return nil
		}
		return wamp.List{}
	}
	l := make(wamp.List, n)
	for i := range l {
		l[i] = g.value(1)
	}
	return l
}

func (g *valGen) dict(min int) wamp.Dict {
	n := min + g.r.IntN(5)
	if n == 0 {
		if g.r.IntN(2) == 0 {
			return nil
		}
		return wamp.Dict{}
	}
	d := make(wamp.Dict, n)
	for i := 0; i < n; i++ {
		d[fmt.Sprintf("k%d%s", i, pick(g.r, stringPool))] = g.value(1)
	}
	return d
}

// genMessage fills a message of type t by reflection over its fields.
func (g *valGen) genMessage(t wamp.MessageType, argMode int) wamp.Message {
	msg := wamp.NewMessage(t)
	v := reflect.ValueOf(msg).Elem()
	for i := 0; i < v.NumField(); i++ {
		f := v.Field(i)
		name := v.Type().Field(i).Name
		switch f.Interface().(type) {
		case wamp.ID:
			f.SetUint(pick(g.r, []uint64{0, 1, 2, 1<<53 - 1, 1 << 53, g.r.Uint64N(1<<53 + 1)}))
		case wamp.URI:
			f.SetString(pick(g.r, []string{"", "a.b.c", "com.例え.テスト", "wamp.error.no_such_procedure", "x..y", " "}))
		case wamp.MessageType:
			f.SetInt(int64(pick(g.r, allCodes)))
		case string:
			f.SetString(pick(g.r, stringPool))
		case wamp.Dict:
			switch {
			case name == "ArgumentsKw" && (argMode == 0 || argMode == 1):
				f.Set(reflect.ValueOf(pick(g.r, []wamp.Dict{nil, {}})))
			case name == "ArgumentsKw":
				f.Set(reflect.ValueOf(g.dict(1)))
			default:
				f.Set(reflect.ValueOf(g.dict(0)))
			}
		case wamp.List:
			switch {
			case name == "Arguments" && (argMode == 0 || argMode == 2):
				f.Set(reflect.ValueOf(pick(g.r, []wamp.List{nil, {}})))
			default:
				f.Set(reflect.ValueOf(g.list(1)))
			}
		}
	}
	return msg
}

// ---- round trip ------------------------------------------------------------

func runC14(c *Case) {
	if c.Index%2 == 0 {
		c14RoundTrip(c)
	} else {
		c14Hostile(c)
	}
}

func safely(f func()) (panicked any) {
	defer func() { panicked = recover() }()
	f()
	return nil
}

// c14Deep: payloads nested 8..200 levels deep (lists, dicts, alternating) must round-trip like any other.
func c14Deep(c *Case) {
	for _, f := range formats() {
		for _, depth := range []int{8, 29, 30, 31, 32, 33, 40, 64, 100, 200} {
			for shape := 0; shape < 3; shape++ {
				var v any = "leaf"
				for i := 0; i < depth; i++ {
					if shape == 0 || (shape == 2 && i%2 == 0) {
						v = wamp.List{v}
					} else {
						v = wamp.Dict{"k": v}
					}
				}
				m := &wamp.Publish{Request: 7, Options: wamp.Dict{}, Topic: "deep.topic", Arguments: wamp.List{depth, v}, ArgumentsKw: wamp.Dict{"deep": v}}
				c14OneRoundTrip(c, f, m, canon.Msg(m), wamp.PUBLISH, 3)
			}
		}
	}
	c.Add("deeply_nested_messages", 90)
}

func c14RoundTrip(c *Case) {
	c14Deep(c)
	fs := formats()
	const n = 400
	var samples []string
	nt := 0
	for i := 0; i < n; i++ {
		t := allCodes[(c.Index/2*n+i)%len(allCodes)]
		argMode := c.Rng.IntN(4) // 0 none, 1 args only, 2 kwargs only, 3 both
		// the message for formats without binary must not contain binary
		seedA, seedB := c.Rng.Uint64(), c.Rng.Uint64()
		canonPer := map[string]string{}
		for _, f := range fs {
			g := &valGen{r: rand.New(rand.NewPCG(seedA, seedB)), binary: false, maxDepth: 2 + int(seedA%5), big: i%16 == 0}
			m := g.genMessage(t, argMode)
			want := canon.Msg(m)
			if g.bigFloat {
				c.Add("messages_with_integral_float_beyond_2^53", 1)
				c14BigFloat(c, f, m, want)
				continue
			}
			if g.depthHit >= 2 || g.boundary {
				nt++
			}
			c14OneRoundTrip(c, f, m, want, t, argMode)
			canonPer[f.name] = want
			if f.binary {
				// same again with binary values allowed
				gb := &valGen{r: rand.New(rand.NewPCG(seedB, seedA)), binary: true, maxDepth: 3}
				mb := gb.genMessage(t, argMode)
				c14OneRoundTrip(c, f, mb, canon.Msg(mb), t, argMode)
			}
			if i < 2 && f.name == "json" && len(samples) < 2 {
				if len(want) > 300 {
					want = want[:300] + "..."
				}
				samples = append(samples, want)
			}
		}
		c.Add("messages", 1)
	}
	c.NT = nt > 0
	c.Key = fmt.Sprintf("roundtrip %d", c.Index)
	c.Sample = map[string]any{"kind": "round-trip", "messages": n, "formats": 3, "examples": samples}
}

func c14OneRoundTrip(c *Case, f fmtSer, m wamp.Message, want string, t wamp.MessageType, argMode int) {
	var b []byte
	var err error
	if p := safely(func() { b, err = f.ser.Serialize(m) }); p != nil {
		c.Fail("SE4", f.name+" serialize panic", "%s Serialize panicked on %s: %v", f.name, want, p)
		return
	}
	c.Hit("SE1")
	if err != nil {
		c.Fail("SE1", f.name+" serialize error", "%s Serialize(%s) failed: %v", f.name, want, err)
		return
	}
	var back wamp.Message
	if p := safely(func() { back, err = f.ser.Deserialize(b) }); p != nil {
		c.Fail("SE4", f.name+" deserialize panic", "%s Deserialize panicked on its own encoding of %s: %v", f.name, want, p)
		return
	}
	if err != nil || back == nil {
		c.Fail("SE1", f.name+" round trip error", "%s cannot deserialize its own encoding of %s: %v", f.name, want, err)
		return
	}
	got := canon.Msg(back)
	c.Hit("SE2")
	if got != want {
		c.Fail("SE1", f.name+" round trip differs "+t.String(), "%s round trip changed the message\n sent: %s\n got:  %s", f.name, want, got)
		return
	}
	// SE3: shape of the encoded list, decoded generically with a harness-owned handle
	var generic any
	if err := codec.NewDecoderBytes(b, f.h).Decode(&generic); err != nil {
		c.Fail("SE3", f.name+" generic decode", "%s encoding of %s is not decodable generically: %v", f.name, want, err)
		return
	}
	l, ok := generic.([]any)
	if !ok || len(l) == 0 {
		c.Fail("SE3", f.name+" not a list", "%s encoding of %s is not a list", f.name, want)
		return
	}
	v := reflect.ValueOf(m).Elem()
	nf := v.NumField()
	hasArgs := nf >= 2 && v.Type().Field(nf-1).Name == "ArgumentsKw" && v.Type().Field(nf-2).Name == "Arguments"
	c.Hit("SE3")
	if code, ok := canon.AsID(l[0]); !ok || code != uint64(t) {
		c.Fail("SE3", f.name+" code", "%s encoding of %s starts with %v", f.name, want, l[0])
	}
	if !hasArgs {
		if len(l) != 1+nf {
			c.Fail("SE3", f.name+" length "+t.String(), "%s encoding of %s has %d elements, expected %d", f.name, want, len(l), 1+nf)
		}
		return
	}
	base := nf - 2
	args := v.Field(nf - 2).Len()
	kw := v.Field(nf - 1).Len()
	wantLen := 1 + base
	if kw > 0 {
		wantLen = 1 + base + 2
	} else if args > 0 {
		wantLen = 1 + base + 1
	}
	if len(l) != wantLen {
		c.Fail("SE3", f.name+" omission "+t.String(), "%s encoding of %s (args=%d kwargs=%d) has %d elements, expected %d: trailing empty arguments must be omitted, kwargs keep their position",
			f.name, t, args, kw, len(l), wantLen)
		return
	}
	if kw > 0 {
		if _, isList := l[1+base].([]any); !isList && l[1+base] != nil {
			c.Fail("SE3", f.name+" args position", "%s encoding of %s: position of Arguments holds %T", f.name, t, l[1+base])
		}
		if _, isMap := l[2+base].(map[string]any); !isMap {
			c.Fail("SE3", f.name+" kwargs position", "%s encoding of %s: position of ArgumentsKw holds %T", f.name, t, l[2+base])
		}
	}
}

// c14BigFloat: integral floats beyond 2^53 (outside the integer range of the
// WAMP data model, but legitimate floats). Only "serialises, and deserialises
// to a message whose floats have the same double value" is demanded.
func c14BigFloat(c *Case, f fmtSer, m wamp.Message, want string) {
	c.Hit("SE1")
	b, err := f.ser.Serialize(m)
	if err != nil {
		c.Fail("SE1", f.name+" serialize error [integral float beyond 2^53]", "%s Serialize(%s) failed: %v", f.name, want, err)
		return
	}
	back, err := f.ser.Deserialize(b)
	if err != nil || back == nil {
		c.Fail("SE1", f.name+" round trip error [integral float beyond 2^53]", "%s cannot deserialize its own encoding of %s: %v", f.name, want, err)
		return
	}
	if got := canon.MsgF(back); got != canon.MsgF(m) {
		c.Fail("SE1", f.name+" round trip differs [integral float beyond 2^53]", "%s round trip changed the message (numbers compared as doubles)\n sent: %s\n got:  %s", f.name, canon.MsgF(m), got)
	}
}

// ---- hostile bytes ---------------------------------------------------------

// kindOK is the weak field-compatibility relation (I11): list-field <- list or
// null, dict-field <- map with string keys or null, scalar-field <- scalar of a
// convertible kind (bool never converts; a byte string is a scalar).
func kindOK(field reflect.Type, v any) bool {
	if v == nil {
		return true
	}
	switch field.Kind() {
	case reflect.Map:
		_, ok := canon.AsDict(v)
		return ok
	case reflect.Slice:
		_, isBytes := v.([]byte)
		if isBytes {
			return false
		}
		_, ok := canon.AsList(v)
		return ok
	case reflect.String:
		switch v.(type) {
		case string, []byte:
			return true
		}
		_, _, _, k := canon.Num(v)
		return k != 0 // numeric -> string coercions are reported, not flagged
	default: // numeric fields (ID, MessageType)
		_, _, _, k := canon.Num(v)
		return k != 0
	}
}

func knownCode(n uint64) bool {
	for _, c := range allCodes {
		if uint64(c) == n {
			return true
		}
	}
	return false
}

func c14Hostile(c *Case) {
	fs := formats()
	r := c.Rng
	n := 2000
	if c.Tier == "thorough" {
		n = 6000
	}
	// corpus of valid encodings to mutate
	corpus := map[string][][]byte{}
	for _, f := range fs {
		for i := 0; i < 40; i++ {
			g := &valGen{r: r, binary: f.binary, maxDepth: 3}
			m := g.genMessage(pick(r, allCodes), r.IntN(4))
			if b, err := f.ser.Serialize(m); err == nil {
				corpus[f.name] = append(corpus[f.name], b)
			}
		}
	}
	lists, accepted, coerced := 0, 0, 0
	var sample []string
	for i := 0; i < n; i++ {
		f := fs[i%3]
		var b []byte
		switch r.IntN(10) {
		case 0:
			b = make([]byte, r.IntN(40))
			for j := range b {
				b[j] = byte(r.IntN(256))
			}
		case 1:
			b = c14Structured(r, f.name)
		default:
			b = mutate(r, pick(r, corpus[f.name]), corpus[f.name])
		}
		c.Hit("SE4")
		var msg wamp.Message
		var err error
		if p := safely(func() { msg, err = f.ser.Deserialize(b) }); p != nil {
			c.Fail("SE4", f.name+" deserialize panic", "%s Deserialize panicked on %d bytes %x: %v", f.name, len(b), clipBytes(b), p)
			continue
		}
		isNil := msg == nil || (reflect.ValueOf(msg).Kind() == reflect.Pointer && reflect.ValueOf(msg).IsNil())
		if !isNil && err != nil {
			c.Fail("SE4", f.name+" message and error", "%s Deserialize(%x) returned both a message and error %v", f.name, clipBytes(b), err)
		}
		if isNil && err == nil {
			c.Fail("SE4", f.name+" neither message nor error", "%s Deserialize(%x) returned neither message nor error", f.name, clipBytes(b))
		}
		// independent structural decode
		var generic any
		gerr := codec.NewDecoderBytes(b, f.h).Decode(&generic)
		l, isList := generic.([]any)
		if gerr == nil && isList {
			lists++
		}
		if !isNil && err == nil {
			accepted++
			c.Hit("SE5")
			if gerr != nil || !isList || len(l) == 0 {
				c.Fail("SE5", f.name+" accepted non-list", "%s Deserialize accepted %x as %s although the bytes are not a list (generic decode: %v, %T)", f.name, clipBytes(b), msg.MessageType(), gerr, generic)
				continue
			}
			code, ok := canon.AsID(l[0])
			if _, _, _, k := canon.Num(l[0]); !ok || k == 'f' || !knownCode(code) {
				c.Fail("SE5", f.name+" accepted unknown code", "%s Deserialize accepted a list headed by %v (%T) as %s", f.name, l[0], l[0], msg.MessageType())
				continue
			}
			if wamp.MessageType(code) != msg.MessageType() {
				c.Fail("SE5", f.name+" wrong type", "%s Deserialize turned code %d into %s", f.name, code, msg.MessageType())
			}
			v := reflect.ValueOf(msg).Elem()
			for j := 0; j < v.NumField() && j+1 < len(l); j++ {
				if !kindOK(v.Field(j).Type(), l[j+1]) {
					c.Fail("SE5", fmt.Sprintf("%s accepted incompatible field %s.%s <- %T", f.name, msg.MessageType(), v.Type().Field(j).Name, l[j+1]),
						"%s Deserialize(%x) accepted %T in field %s of %s", f.name, clipBytes(b), l[j+1], v.Type().Field(j).Name, msg.MessageType())
				} else if v.Field(j).Kind() == reflect.String {
					if _, _, _, k := canon.Num(l[j+1]); k != 0 {
						coerced++
					}
				}
			}
			if len(sample) < 3 {
				sample = append(sample, fmt.Sprintf("%s %x -> %s", f.name, clipBytes(b), msg.MessageType()))
			}
		}
		// data items
		if i%4 == 0 {
			for _, target := range []func() any{
				func() any { var x any; return &x },
				func() any { return &wamp.Dict{} },
				func() any { return &wamp.List{} },
				func() any { return &wamp.PassthruPayload{} },
				func() any { var p *wamp.PassthruPayload; return &p },
				func() any { return &serialize.BinaryData{} },
			} {
				tv := target()
				c.Hit("SE4")
				if p := safely(func() { _ = f.ser.DeserializeDataItem(b, tv) }); p != nil {
					c.Fail("SE4", fmt.Sprintf("%s DeserializeDataItem panic into %T", f.name, tv), "%s DeserializeDataItem(%x, %T) panicked: %v", f.name, clipBytes(b), tv, p)
				}
			}
		}
	}
	c.Add("byte_strings", float64(n))
	c.Add("generic_lists", float64(lists))
	c.Add("accepted_as_message", float64(accepted))
	c.Add("numeric_to_string_coercions_reported", float64(coerced))
	c.NT = lists > 0
	c.Key = fmt.Sprintf("hostile %d", c.Index)
	c.Sample = map[string]any{"kind": "hostile-bytes", "byte_strings": n, "decoded_generically_to_list": lists, "accepted": accepted, "examples": sample}
}

func clipBytes(b []byte) []byte {
	if len(b) > 64 {
		return b[:64]
	}
	return b
}

func mutate(r *rand.Rand, b []byte, corpus [][]byte) []byte {
	out := append([]byte(nil), b...)
	if len(out) == 0 {
		return out
	}
	for k := 1 + r.IntN(3); k > 0; k-- {
		switch r.IntN(8) {
		case 0: // bit flip
			i := r.IntN(len(out))
			out[i] ^= 1 << r.IntN(8)
		case 1: // truncate
			out = out[:r.IntN(len(out)+1)]
		case 2: // byte replace with an interesting value
			i := r.IntN(len(out))
			out[i] = pick(r, []byte{0x00, 0xff, 0x7f, 0x80, 0xc0, 0xc1, 0xdb, 0xdd, 0xdf, 0x9f, 0xbf, 0x5f, 0x7b, 0x5b, '"', '{', '[', ',', ':', '9', '-', 'e', 0x1b, 0xfb})
		case 3: // splice with another encoding
			o := pick(r, corpus)
			if len(o) > 0 {
				i, j := r.IntN(len(out)), r.IntN(len(o))
				out = append(append([]byte(nil), out[:i]...), o[j:]...)
			}
		case 4: // duplicate a chunk
			i := r.IntN(len(out))
			j := i + r.IntN(len(out)-i)
			out = append(out[:j:j], append(append([]byte(nil), out[i:j]...), out[j:]...)...)
		case 5: // insert a huge declared length
			if os.Getenv("VERIF_C14_NOBOMB") != "" {
				continue
			} // (msgpack array32/map32/str32/bin32, cbor 4/8-byte lengths)
			i := r.IntN(len(out))
			ins := pick(r, [][]byte{{0xdd, 0xff, 0xff, 0xff, 0xff}, {0xdf, 0x7f, 0xff, 0xff, 0xff}, {0xdb, 0xff, 0xff, 0xff, 0xf0}, {0xc6, 0xff, 0xff, 0xff, 0xff},
				{0x9a, 0xff, 0xff, 0xff, 0xff}, {0xbb, 0, 0, 0, 1, 0, 0, 0, 0}, {0x5a, 0xff, 0xff, 0xff, 0xff}, {0x7b, 0x7f, 0xff, 0xff, 0xff, 0xff, 0xff, 0xff, 0xff}})
			out = append(out[:i:i], append(ins, out[i:]...)...)
		case 6: // first element edits: swap the message code
			if len(out) > 1 {
				out[1] = byte(r.IntN(256))
			}
		default: // append garbage
			for x := r.IntN(6); x >= 0; x-- {
				out = append(out, byte(r.IntN(256)))
			}
		}
		if len(out) == 0 {
			break
		}
	}
	return out
}

// c14Structured builds adversarial but well-formed inputs: deep nesting,
// non-list tops, wrong field kinds, unknown and non-integer codes.
func c14Structured(r *rand.Rand, format string) []byte {
	var v any
	code := any(int(pick(r, allCodes)))
	switch r.IntN(10) {
	case 0:
		code = pick(r, []any{0, 7, 9, 15, 18, 37, 51, 71, 255, 256, 257, 272, 65536 + 16, -1, 1.0, 16.5, "16", true, nil, []any{16}, uint64(1)<<63 + 16})
	}
	switch r.IntN(8) {
	case 0:
		v = map[string]any{"1": code}
	case 1:
		v = code
	case 2: // deep nesting
		var x any = "leaf"
		depth := pick(r, []int{10, 100, 1000, 3000})
		for i := 0; i < depth; i++ {
			x = []any{x}
		}
		v = []any{code, 1, map[string]any{}, x}
	case 3:
		v = []any{}
	default:
		pool := []any{1, "s", 2.5, true, nil, []any{1, "x"}, map[string]any{"k": 1}, []byte{1, 2}, -5, uint64(1) << 60, "", []any{}, map[string]any{}}
		l := []any{code}
		for i := r.IntN(8); i > 0; i-- {
			l = append(l, pick(r, pool))
		}
		v = l
	}
	var h codec.Handle
	switch format {
	case "json":
		h = &codec.JsonHandle{}
	case "msgpack":
		mh := &codec.MsgpackHandle{}
		mh.WriteExt = true
		h = mh
	default:
		h = &codec.CborHandle{}
	}
	var b []byte
	if err := codec.NewEncoderBytes(&b, h).Encode(v); err != nil {
		return []byte{0xc1}
	}
	return b
}

var _ = utf8.RuneError
