package checks

import (
	"fmt"
	"math/rand/v2"
	"strings"
	"time"

	"verif/harness/model"
	"verif/harness/sim"
)

// rpcWeights tunes the RPC script generator per property.
type rpcWeights struct {
	register, unregister, call, yield, inverr, cancel, advance, leave, join, foreign int
	progInv                                                                           int // percent of calls that are progressive invocations
	timeoutPct                                                                        int // percent of calls with a timeout
	progPct                                                                           int // percent of calls asking receive_progress
	exactTimes                                                                        bool
	hotPct                                                                            int // percent of REGISTERs aimed at one shared 'hot' procedure
	pubsub                                                                            int // weight of pub/sub ops (subscribe, unsubscribe, publish, testament)
	noFinalAdvance                                                                    bool
	nSteps                                                                            int // 0: 20..60
}

// scriptStep is one recorded step of a generated script (for replays with injected faults).
type scriptStep struct {
	Join *PuppetSetup
	Op   *model.Op
}

var procPool = []string{"a", "a.b", "a.b.c", "a.b2", "a.x.c", "b", "a.b.c.d", "b.b.c"}
var invokePolicies = []string{"", "single", "first", "last", "roundrobin", "random"}

// randomFeatures draws a client feature set inside the decided domain
// (progressive_call_results implies call_canceling, progressive invocations
// imply call_canceling).
func randomFeatures(r *rand.Rand) map[string][]string {
	if chance(r, 35) {
		return nil // all features
	}
	f := map[string][]string{"publisher": {"publisher_exclusion"}, "subscriber": {"pattern_based_subscription"}}
	var callee, caller []string
	cc := chance(r, 60)
	if cc {
		callee = append(callee, "call_canceling")
		if chance(r, 60) {
			callee = append(callee, "progressive_call_results")
		}
		if chance(r, 50) {
			callee = append(callee, "progressive_call_invocations")
		}
	}
	if chance(r, 50) {
		callee = append(callee, "call_timeout")
	}
	if chance(r, 50) {
		callee = append(callee, "caller_identification")
	}
	callee = append(callee, "shared_registration", "pattern_based_registration")
	if chance(r, 70) {
		caller = append(caller, "call_canceling")
	}
	if chance(r, 70) {
		caller = append(caller, "progressive_call_results")
	}
	if chance(r, 60) {
		caller = append(caller, "progressive_call_invocations")
	}
	caller = append(caller, "call_timeout", "caller_identification")
	f["callee"], f["caller"] = callee, caller
	return f
}

func hasFeature(ps PuppetSetup, role, feat string) bool {
	if ps.Features == nil {
		return true
	}
	for _, f := range ps.Features[role] {
		if f == feat {
			return true
		}
	}
	return false
}

type rpcRun struct {
	run    *Runner
	steps  []scriptStep
	script []string
	setups []PuppetSetup
	realm  RealmSetup
	// statistics for non-triviality
	lateAnswers   int
	cancelOrTO    int
	cancelsAtTie  int
	foreignAnswer int
}

// runRPCScript generates and executes one RPC script. It must be called inside
// a bubble.
func runRPCScript(c *Case, w rpcWeights, trackMeta bool) *rpcRun {
	g := newScriptGen(c)
	r := c.Rng
	rr := &rpcRun{}
	rr.realm = RealmSetup{RealmSpec: model.RealmSpec{Name: "realm1", Strict: chance(r, 20), AllowDisclose: chance(r, 50), MetaKill: true}}
	nPup := 3 + r.IntN(4)
	netPct := 45
	for i := 0; i < nPup; i++ {
		ps := randomPuppet(r, rr.realm.Name, netPct)
		ps.Features = randomFeatures(r)
		rr.setups = append(rr.setups, ps)
	}
	run, err := NewRunner(c, []RealmSetup{rr.realm}, nil)
	if err != nil {
		c.Fail("HARNESS", "world", "cannot create world: %v", err)
		return rr
	}
	rr.run = run
	run.Mon.CheckDisclose = true
	run.Mon.TrackMeta = trackMeta
	for i := range rr.setups {
		ps := rr.setups[i]
		rr.steps = append(rr.steps, scriptStep{Join: &ps})
		run.Join(ps)
	}
	exec := func(op model.Op) {
		rr.script = append(rr.script, op.String())
		o := op
		rr.steps = append(rr.steps, scriptStep{Op: &o})
		run.Exec(op)
	}
	if trackMeta {
		exec(model.Op{Kind: model.OpSubscribe, P: 0, Req: g.nextReq(0), URI: "wamp.", Opts: matchOpts("prefix")})
	}
	hotInvoke := pick(r, []string{"first", "last", "roundrobin", "roundrobin", "random"})
	hotURI, hotMatch := pick(r, []string{"a.b", "a", "b"}), pick(r, []string{"", "prefix"})
	total := w.register + w.unregister + w.call + w.yield + w.inverr + w.cancel + w.advance + w.leave + w.join + w.foreign + w.pubsub
	var subsHeld [][3]string
	nSteps := 20 + r.IntN(41)
	if w.nSteps > 0 {
		nSteps = w.nSteps/2 + r.IntN(w.nSteps)
	}
	type closedCall struct {
		caller, callee int
		req, inv       uint64
	}
	var closed []closedCall // calls that existed at some point (for late/duplicate answers)
	seenCall := map[[2]uint64]bool{}
	for step := 0; step < nSteps; step++ {
		al := run.Mon.AliveSessions()
		if len(al) < 2 {
			break
		}
		pend := run.Mon.PendingCalls()
		for _, pc := range pend {
			k := [2]uint64{uint64(pc.Caller), pc.Req}
			if !seenCall[k] {
				seenCall[k] = true
				closed = append(closed, closedCall{pc.Caller, pc.Callee, pc.Req, pc.Inv})
			}
		}
		x := r.IntN(total)
		pickKind := func() string {
			for _, kv := range []struct {
				n string
				w int
			}{{"register", w.register}, {"unregister", w.unregister}, {"call", w.call}, {"yield", w.yield}, {"inverr", w.inverr},
				{"cancel", w.cancel}, {"advance", w.advance}, {"leave", w.leave}, {"join", w.join}, {"foreign", w.foreign}, {"pubsub", w.pubsub}} {
				if x < kv.w {
					return kv.n
				}
				x -= kv.w
			}
			return "call"
		}
		kind := pickKind()
		p := pick(r, al)
		switch kind {
		case "register":
			if chance(r, w.hotPct) {
				// many members on one shared registration, so that rotation,
				// first/last and removal from the middle are exercised
				opts := matchOpts(hotMatch)
				opts["invoke"] = hotInvoke
				if chance(r, 40) {
					// the registration keeps the flag of its first registrant; later members may lack the feature
					opts["forward_timeout"] = true
				}
				exec(model.Op{Kind: model.OpRegister, P: p, Req: g.nextReq(p), URI: hotURI, Opts: opts})
				continue
			}
			uri, m := g.topicAndMatch(8)
			if m == "" || m == "exact" {
				uri = pick(r, procPool)
				if chance(r, 6) {
					uri = "wamp.session.kill"
				}
			}
			opts := matchOpts(m)
			if inv := pick(r, invokePolicies); inv != "" {
				opts["invoke"] = inv
			}
			if chance(r, 15) {
				opts["disclose_caller"] = true
			}
			if chance(r, 25) {
				opts["forward_timeout"] = true
			}
			exec(model.Op{Kind: model.OpRegister, P: p, Req: g.nextReq(p), URI: uri, Opts: opts})
		case "unregister":
			regs := run.Mon.Registrations()
			op := model.Op{Kind: model.OpUnregister, P: p, Req: g.nextReq(p)}
			if len(regs) > 0 && chance(r, 80) {
				rg := pick(r, regs)
				// prefer a registration whose member is serving a call right now
				if len(pend) > 0 && chance(r, 50) {
					pc := pick(r, pend)
					for _, cand := range regs {
						if contains(cand.Members, pc.Callee) {
							rg = cand
						}
					}
				}
				if chance(r, 70) && len(rg.Members) > 0 {
					op.P = pick(r, rg.Members)
					op.Req = g.nextReq(op.P)
				}
				op.Target = model.Ref{Kind: "reg", Topic: rg.URI, Match: rg.Policy}
			} else {
				op.Target = model.Ref{Kind: "raw", Raw: uint64(100 + r.IntN(50))}
			}
			exec(op)
		case "call":
			uri := pick(r, procPool)
			if chance(r, 5) {
				uri = pick(r, []string{"zzz", "a..c", "a.", ""})
			}
			opts := map[string]any{}
			if chance(r, w.timeoutPct) {
				opts["timeout"] = pick(r, []any{1, 2, 999, 1000, 60000, int64(1500), uint64(250), 10000000, 30.0})
			}
			if chance(r, w.progPct) && hasFeature(rr.setups[p], "caller", "progressive_call_results") {
				opts["receive_progress"] = true
			}
			if chance(r, 12) {
				opts["disclose_me"] = true
			}
			if chance(r, w.progInv) && hasFeature(rr.setups[p], "caller", "progressive_call_invocations") {
				opts["progress"] = true
			}
			args, kw := g.payload()
			exec(model.Op{Kind: model.OpCall, P: p, Req: g.nextReq(p), URI: uri, Opts: opts, Args: args, Kw: kw})
		case "yield", "inverr":
			if len(pend) == 0 && len(closed) == 0 {
				continue
			}
			var caller, callee int
			var req uint64
			late := false
			// continuation chunk of a progressive call instead?
			if len(pend) > 0 && chance(r, 80) {
				pc := pick(r, pend)
				if pc.InProgress && !pc.Abandoned && chance(r, 50) {
					args, kw := g.payload()
					opts := map[string]any{}
					if chance(r, 60) {
						opts["progress"] = true
					}
					if pc.WantProgress {
						opts["receive_progress"] = true
					}
					exec(model.Op{Kind: model.OpCall, P: pc.Caller, Req: pc.Req, URI: pc.URI, Opts: opts, Args: args, Kw: kw})
					continue
				}
				caller, callee, req = pc.Caller, pc.Callee, pc.Req
			} else if len(closed) > 0 {
				cc := pick(r, closed)
				caller, callee, req = cc.caller, cc.callee, cc.req
				late = true
			} else {
				continue
			}
			actor := callee
			if chance(r, 15) { // an answer from a session that does not own the invocation
				actor = pick(r, al)
				if actor != callee {
					rr.foreignAnswer++
				}
			}
			if s := run.Mon.Sess[actor]; s == nil || !s.Alive {
				continue
			}
			if late {
				rr.lateAnswers++
			}
			args, kw := g.payload()
			if kind == "yield" {
				opts := map[string]any{}
				if chance(r, 35) {
					opts["progress"] = true
				}
				exec(model.Op{Kind: model.OpYield, P: actor, Target: model.Ref{Kind: "inv", P: caller, Req: req}, Opts: opts, Args: args, Kw: kw})
			} else {
				exec(model.Op{Kind: model.OpInvError, P: actor, Target: model.Ref{Kind: "inv", P: caller, Req: req},
					ErrURI: pick(r, []string{"com.myapp.error", "wamp.error.canceled", "wamp.error.invalid_argument"}), Args: args, Kw: kw})
			}
		case "cancel":
			mode := pick(r, []string{"", "skip", "kill", "killnowait", "bogus"})
			opts := map[string]any{}
			if mode != "" {
				opts["mode"] = mode
			}
			var op model.Op
			switch y := r.IntN(10); {
			case y < 7 && len(pend) > 0:
				pc := pick(r, pend)
				op = model.Op{Kind: model.OpCancel, P: pc.Caller, Req: pc.Req, Opts: opts}
				if s := run.Mon.Sess[pc.Caller]; s == nil || !s.Alive {
					continue
				}
				rr.cancelOrTO++
			case y < 8 && len(pend) > 0: // foreign: another session names the same request id
				pc := pick(r, pend)
				op = model.Op{Kind: model.OpCancel, P: p, Req: pc.Req, Opts: opts}
			case len(closed) > 0: // finished call
				cc := pick(r, closed)
				if s := run.Mon.Sess[cc.caller]; s == nil || !s.Alive {
					continue
				}
				op = model.Op{Kind: model.OpCancel, P: cc.caller, Req: cc.req, Opts: opts}
			default:
				op = model.Op{Kind: model.OpCancel, P: p, Req: uint64(500 + r.IntN(10)), Opts: opts}
			}
			exec(op)
		case "advance":
			var d time.Duration
			now := int64(run.W.Now())
			var next int64
			for _, pc := range pend {
				if pc.Deadline > now && (next == 0 || pc.Deadline < next) && !pc.KillOutstanding {
					next = pc.Deadline
				}
			}
			switch {
			case next != 0 && w.exactTimes && chance(r, 70):
				// stop 1 ms short (nothing may happen), then hit the deadline exactly
				if gap := time.Duration(next - now); gap > time.Millisecond {
					exec(model.Op{Kind: model.OpAdvance, D: gap - time.Millisecond})
					d = time.Millisecond
				} else {
					d = gap
				}
				rr.cancelOrTO++
			case next != 0 && chance(r, 60):
				d = time.Duration(next-now) + time.Duration(r.IntN(3))*time.Millisecond
				rr.cancelOrTO++
			default:
				d = pick(r, []time.Duration{time.Millisecond, 500 * time.Millisecond, time.Second, time.Minute})
			}
			exec(model.Op{Kind: model.OpAdvance, D: d})
		case "leave":
			if p == 0 && trackMeta {
				continue
			}
			how := pick(r, []string{model.LeaveGoodbye, model.LeaveDrop, model.LeaveViolation, "kill"})
			if how == "kill" {
				killer := pick(r, al)
				if killer == p {
					continue
				}
				kw := map[string]any{}
				if rs := pick(r, killReasons); rs != "" {
					kw["reason"] = rs // includes the reason URIs the router itself uses for shutdown and normal close
				}
				exec(model.Op{Kind: model.OpMetaCall, P: killer, Req: g.nextReq(killer), URI: "wamp.session.kill", Args: []any{model.Ref{Kind: "sid", P: p}}, Kw: kw})
			} else {
				exec(model.Op{Kind: model.OpLeave, P: p, How: how})
			}
		case "join":
			if len(run.W.Puppets) < 9 {
				ps := randomPuppet(r, rr.realm.Name, netPct)
				ps.Features = randomFeatures(r)
				rr.setups = append(rr.setups, ps)
				rr.script = append(rr.script, "join "+ps.String())
				rr.steps = append(rr.steps, scriptStep{Join: &ps})
				run.Join(ps)
			}
		case "pubsub":
			switch y := r.IntN(10); {
			case y < 4:
				uri, m := g.topicAndMatch(5)
				exec(model.Op{Kind: model.OpSubscribe, P: p, Req: g.nextReq(p), URI: uri, Opts: matchOpts(m)})
				subsHeld = append(subsHeld, [3]string{fmt.Sprint(p), uri, model.NormMatch(m)})
			case y < 5 && len(subsHeld) > 0:
				h := pick(r, subsHeld)
				exec(model.Op{Kind: model.OpUnsubscribe, P: p, Req: g.nextReq(p), Target: model.Ref{Kind: "sub", Topic: h[1], Match: h[2]}})
			case y < 9:
				args, kw := g.payload()
				exec(model.Op{Kind: model.OpPublish, P: p, Req: g.nextReq(p), URI: pick(r, poolTopics), Opts: genPublishOpts(g, len(run.W.Puppets), rr.realm.AllowDisclose), Args: args, Kw: kw})
			default:
				args, kw := g.payload()
				if args == nil {
					args = []any{}
				}
				if kw == nil {
					kw = map[string]any{}
				}
				exec(model.Op{Kind: model.OpMetaCall, P: p, Req: g.nextReq(p), URI: "wamp.session.add_testament", Args: []any{pick(r, poolTopics), args, kw}, Kw: map[string]any{}})
			}
		case "foreign":
			// UNREGISTER / YIELD with ids that exist but belong to others, or unknown ids
			switch r.IntN(3) {
			case 0:
				exec(model.Op{Kind: model.OpYield, P: p, Target: model.Ref{Kind: "raw", Raw: uint64(1 + r.IntN(30))}, Opts: map[string]any{}, Args: []any{"stray"}})
			case 1:
				exec(model.Op{Kind: model.OpInvError, P: p, Target: model.Ref{Kind: "raw", Raw: uint64(1 + r.IntN(30))}, ErrURI: "com.myapp.stray"})
			default:
				exec(model.Op{Kind: model.OpCancel, P: p, Req: uint64(1 + r.IntN(6)), Opts: map[string]any{"mode": pick(r, []string{"skip", "kill", "killnowait"})}})
			}
		}
	}
	// drain: let every armed router timer fire and check the resulting timeouts
	if !w.noFinalAdvance {
		exec(model.Op{Kind: model.OpAdvance, D: 3 * time.Hour})
	}
	c.Add("steps", float64(run.Steps))
	c.Add("calls_closed_non_happy", float64(run.Mon.NonHappyCloses))
	return rr
}

func (rr *rpcRun) key() string {
	var sb strings.Builder
	fmt.Fprintf(&sb, "strict=%v disclose=%v|", rr.realm.Strict, rr.realm.AllowDisclose)
	for _, ps := range rr.setups {
		sb.WriteString(ps.String() + ";")
	}
	sb.WriteString(strings.Join(rr.script, "\n"))
	return sb.String()
}

func (rr *rpcRun) sample() any {
	return map[string]any{"realm": fmt.Sprintf("strict=%v allow_disclose=%v", rr.realm.Strict, rr.realm.AllowDisclose),
		"sessions": puppetStrings(rr.setups), "script": clip(rr.script, 80)}
}

var _ = sim.Local

func contains(l []int, x int) bool {
	for _, v := range l {
		if v == x {
			return true
		}
	}
	return false
}
