// Package checks contains one workload+monitor ("prop") per property. The
// package is compiled with `go test -c -race -tags verif` into a worker binary
// that the driver (/verif/vcheck) runs as child processes, one batch of cases
// per process. Every case is logged before it is executed so that a crash of
// the process can be attributed.
package checks

import (
	"crypto/sha256"
	"encoding/binary"
	"encoding/hex"
	"encoding/json"
	"fmt"
	"math/rand/v2"
	"os"
	"regexp"
	"runtime"
	"runtime/debug"
	"sort"
	"strings"
	"testing"
	"testing/synctest"
	"time"
)

// Violation is one refutation of a property observed by a monitor.
type Violation struct {
	Rule   string `json:"rule"`   // rule id from DESIGN.md appendix A
	Sig    string `json:"sig"`    // short stable signature used for known-finding matching
	Detail string `json:"detail"` // human-readable description with expected vs observed
}

// Case is one generated case (script + configuration) of a property.
type Case struct {
	Prop    string
	Tier    string
	Seed    int64
	Index   int
	Rng     *rand.Rand
	T       *testing.T
	Verbose bool

	NT       bool               // non-trivial by the property's rule
	Key      string             // canonical description hashed for distinctness
	Viol     []Violation        // violations found
	Rules    map[string]int     // rule id -> times its precondition was met and it was checked
	Events   map[string]int     // observed message/event kinds
	Inter    string             // interleaving fingerprint (hash of arrival order), if any
	Sample   any                // the case written out (kept for the first few)
	Extra    map[string]float64 // summable measured counters
	Max      map[string]float64 // max-aggregated measured values
	Trace    []string           // verbose trace (only kept when Verbose or on violation)
	Inconcl  string             // non-empty: case was inconclusive for this reason
	Raced    bool               // the race detector reported a race while this case's bubble ran
	Poisoned bool               // the bubble ended in a deadlock panic; blocked goroutines remain in the process
}

func (c *Case) Hit(rule string)         { c.Rules[rule]++ }
func (c *Case) Ev(kind string)          { c.Events[kind]++ }
func (c *Case) Add(k string, v float64) { c.Extra[k] += v }
func (c *Case) SetMax(k string, v float64) {
	if v > c.Max[k] {
		c.Max[k] = v
	}
}
func (c *Case) Tracef(f string, a ...any) {
	if len(c.Trace) < 4000 {
		c.Trace = append(c.Trace, fmt.Sprintf(f, a...))
	}
	if c.Verbose {
		// written at once, so that the script up to a process-fatal crash is on record
		fmt.Fprintf(os.Stderr, "TRACE "+f+"\n", a...)
	}
}
func (c *Case) Fail(rule, sig, f string, a ...any) {
	d := fmt.Sprintf(f, a...)
	c.Viol = append(c.Viol, Violation{Rule: rule, Sig: sig, Detail: d})
	c.Tracef("!! VIOLATION %s [%s] %s", rule, sig, d)
}

// Bubble runs f inside a synctest bubble and converts the bubble's deadlock /
// leaked-goroutine panics (and any panic of f itself) into a string. The bubble
// is entered from a helper goroutine: when the race detector reported a race
// during the bubble, synctest.Test calls t.FailNow (runtime.Goexit), which must
// not end the worker; such a case is flagged in c.Raced instead.
func (c *Case) Bubble(f func()) (panicText string) {
	done := make(chan struct{})
	returned := false
	go func() {
		defer close(done)
		defer func() {
			if r := recover(); r != nil {
				panicText = fmt.Sprint(r)
				if !strings.HasPrefix(panicText, "deadlock:") {
					panicText += "\n" + string(debug.Stack())
				} else {
					// goroutines of this bubble stay behind, blocked for ever; the
					// runtime does not cope well with a process that goes on to run
					// more bubbles, so the worker exits after this case.
					c.Poisoned = true
					// list the goroutines of the bubble that are still blocked
					buf := make([]byte, 4<<20)
					buf = buf[:runtime.Stack(buf, true)]
					n := 0
					for _, g := range strings.Split(string(buf), "\n\n") {
						if strings.Contains(g, "synctest bubble") && !strings.Contains(g, "synctest.Run") && n < 12 {
							panicText += "\n\n" + g
							n++
						}
					}
				}
				returned = true
			}
		}()
		synctest.Test(c.T, func(t *testing.T) { f() })
		returned = true
	}()
	<-done
	if !returned {
		c.Raced = true
		c.Add("cases_with_race_report", 1)
	}
	return panicText
}

// Prop is a registered property check.
type Prop struct {
	ID    string
	Cases func(tier string) int // number of cases for a tier (fixed, seed-determined list)
	Batch func(tier string) int // cases per worker process
	Run   func(c *Case)
	// Rule describing generation and non-triviality, for evidence.
	Rule string
	// Required rule ids (minimum hit count 1 over the run); unmet => inconclusive.
	Required []string
	Level    string // exploration | fault_enumeration
	Build    string // worker build kind: "" (= race), "checkptr" (plain build with -d=checkptr), "asan"
	// Asan, when set, is the number of leading cases the driver repeats with an AddressSanitizer build.
	Asan func(tier string) int
}

var registry = map[string]*Prop{}

var nexusFrameRE = regexp.MustCompile(`github\.com/gammazero/nexus/v3/(router|transport|client|wamp)[./]`)

func register(p *Prop) { registry[p.ID] = p }

func caseSeed(seed int64, prop string, idx int) (uint64, uint64) {
	h := sha256.New()
	var b [16]byte
	binary.LittleEndian.PutUint64(b[:8], uint64(seed))
	binary.LittleEndian.PutUint64(b[8:], uint64(idx))
	h.Write(b[:])
	h.Write([]byte(prop))
	s := h.Sum(nil)
	return binary.LittleEndian.Uint64(s[:8]), binary.LittleEndian.Uint64(s[8:16])
}

func hashKey(s string) string {
	h := sha256.Sum256([]byte(s))
	return hex.EncodeToString(h[:8])
}

type resultLine struct {
	Case    int                `json:"case"`
	Hash    string             `json:"hash"`
	NT      bool               `json:"nt"`
	Viol    []Violation        `json:"viol,omitempty"`
	Rules   map[string]int     `json:"rules,omitempty"`
	Events  map[string]int     `json:"events,omitempty"`
	Inter   string             `json:"inter,omitempty"`
	Sample  any                `json:"sample,omitempty"`
	Extra   map[string]float64 `json:"extra,omitempty"`
	Max     map[string]float64 `json:"max,omitempty"`
	Trace   []string           `json:"trace,omitempty"`
	Inconcl string             `json:"inconcl,omitempty"`
	Raced   bool               `json:"raced,omitempty"`
}

func envInt(name string, def int) int {
	v := os.Getenv(name)
	if v == "" {
		return def
	}
	var n int
	fmt.Sscan(v, &n)
	return n
}

// runWorker is the body of TestWorker.
func runWorker(t *testing.T) {
	propID := os.Getenv("VERIF_PROP")
	if propID == "" {
		t.Skip("VERIF_PROP not set (worker is driven by /verif/vcheck)")
	}
	p := registry[propID]
	if p == nil {
		t.Fatalf("unknown property %q", propID)
	}
	tier := os.Getenv("VERIF_TIER")
	if tier == "" {
		tier = "quick"
	}
	if os.Getenv("VERIF_MODE") == "plan" {
		ids := []string{}
		for id := range registry {
			ids = append(ids, id)
		}
		sort.Strings(ids)
		asan := 0
		if p.Asan != nil {
			asan = p.Asan(tier)
		}
		out, _ := json.Marshal(map[string]any{"cases": p.Cases(tier), "batch": p.Batch(tier), "rule": p.Rule,
			"required": p.Required, "level": p.Level, "props": ids, "build": p.Build, "asan_cases": asan})
		fmt.Printf("PLAN %s\n", out)
		return
	}
	seed := int64(envInt("VERIF_SEED", 1))
	from, to := envInt("VERIF_FROM", 0), envInt("VERIF_TO", p.Cases(tier))
	verbose := os.Getenv("VERIF_VERBOSE") != ""
	samples := envInt("VERIF_SAMPLES", 0) // keep sample for the first n cases of this batch
	outPath, logPath := os.Getenv("VERIF_OUT"), os.Getenv("VERIF_CASELOG")
	var out, clog *os.File
	var err error
	if outPath != "" {
		if out, err = os.OpenFile(outPath, os.O_CREATE|os.O_WRONLY|os.O_APPEND, 0o644); err != nil {
			t.Fatal(err)
		}
		defer out.Close()
	} else {
		out = os.Stdout
	}
	if logPath != "" {
		if clog, err = os.OpenFile(logPath, os.O_CREATE|os.O_WRONLY|os.O_APPEND, 0o644); err != nil {
			t.Fatal(err)
		}
		defer clog.Close()
	}
	for i := from; i < to; i++ {
		if clog != nil {
			fmt.Fprintf(clog, "begin %d\n", i)
		}
		s1, s2 := caseSeed(seed, propID, i)
		c := &Case{Prop: propID, Tier: tier, Seed: seed, Index: i, T: t, Verbose: verbose,
			Rng:   rand.New(rand.NewPCG(s1, s2)),
			Rules: map[string]int{}, Events: map[string]int{}, Extra: map[string]float64{}, Max: map[string]float64{}}
		t0 := time.Now()
		// A goroutine that waits for a sync.Mutex inside a bubble is not "durably blocked": the bubble can then
		// neither become quiescent nor advance its clock, and the case would sit there until the driver's
		// wall-clock watchdog. A mutex that nexus code has been waiting for for minutes of real time is a
		// deadlock (its holder never gave it back), so this is decided here: the process is ended with a panic
		// naming the function, which the driver attributes to this case like any crash.
		caseDone := make(chan struct{})
		go func() {
			for waited := 0; ; waited++ {
				select {
				case <-caseDone:
					return
				case <-time.After(30 * time.Second):
				}
				if waited < 3 || (propID != "C16" && propID != "C17") {
					// only the client checks: in the router a join may legitimately wait on the realm's close lock for
					// up to a minute of virtual time (meta session's result retry), which a bubble cannot play out
					continue
				}
				buf := make([]byte, 8<<20)
				buf = buf[:runtime.Stack(buf, true)]
				for _, g := range strings.Split(string(buf), "\n\n") {
					head, _, _ := strings.Cut(g, "\n")
					if strings.Contains(head, "synctest bubble") && strings.Contains(head, "sync.Mutex.Lock") && strings.Contains(head, "minutes") && nexusFrameRE.MatchString(g) {
						panic("verif: goroutine has been waiting for a mutex for minutes (deadlock): " + leakSig(g))
					}
				}
			}
		}()
		func() {
			defer close(caseDone)
			defer func() {
				if r := recover(); r != nil {
					c.Fail("RB1", "harness-goroutine-panic", "panic in case goroutine: %v\n%s", r, debug.Stack())
				}
			}()
			p.Run(c)
		}()
		c.Max["case_wall_ms"] = float64(time.Since(t0).Milliseconds())
		rl := resultLine{Case: i, Hash: hashKey(c.Key), NT: c.NT, Viol: c.Viol, Rules: c.Rules, Events: c.Events,
			Inter: c.Inter, Extra: c.Extra, Max: c.Max, Inconcl: c.Inconcl, Raced: c.Raced}
		if i-from < samples || len(c.Viol) > 0 || verbose {
			rl.Sample = c.Sample
		}
		if len(c.Viol) > 0 || verbose {
			rl.Trace = c.Trace
		}
		b, err := json.Marshal(rl)
		if err != nil {
			b, _ = json.Marshal(resultLine{Case: i, Hash: hashKey(c.Key), Viol: []Violation{{Rule: "HARNESS", Sig: "marshal", Detail: err.Error()}}})
		}
		out.Write(append(b, '\n'))
		if clog != nil {
			fmt.Fprintf(clog, "end %d\n", i)
		}
		if c.Poisoned && i+1 < to {
			// leave without the "done" marker: the driver starts a fresh worker at case i+1
			out.Sync()
			if clog != nil {
				clog.Sync()
			}
			os.Exit(0)
		}
	}
	if clog != nil {
		fmt.Fprintf(clog, "done\n")
	}
}

func synctestWait()                { synctest.Wait() }
func sleepVirtual(d time.Duration) { time.Sleep(d); synctest.Wait() }
