package checks

import (
	"fmt"
	"math"
	"math/rand/v2"
	"reflect"
	"sort"
	"strings"
	"time"

	"github.com/ugorji/go/codec"

	"github.com/gammazero/nexus/v3/router"
	"github.com/gammazero/nexus/v3/router/auth"
	"github.com/gammazero/nexus/v3/wamp"

	"verif/harness/sim"
)

// C04 — no client input or timing can crash or wedge the router. Engine
// "bubble": hostile sessions send every message type in every session state
// with hostile values in every field / option / detail position, over all
// transports; after every hostile step two uninvolved probe sessions must
// still be served (pub/sub, RPC, meta API) and still be attached. A crash of
// the worker process (panic, fatal error) is attributed by the driver.

func init() {
	register(&Prop{
		ID: "C04",
		Cases: func(tier string) int {
			if tier == "thorough" {
				return 40000
			}
			return 2400
		},
		Batch: func(tier string) int {
			if tier == "thorough" {
				return 500
			}
			return 100
		},
		Run: runC04,
		Rule: "each case is a world with two probe sessions and 2-4 hostile sessions (all transports) that take 25 hostile steps: a message of any of the 24 types (also router-to-client types) " +
			"built from a valid template with one or more positions (fields, every known option/detail key, arguments, meta procedure arguments) replaced by a value from the hostile pool " +
			"(nil, bool, +-int, uint64>2^63, floats, empty/non-URI/long strings, bytes, nested lists and dicts), sent before HELLO, during a wampcra handshake, while attached, after GOODBYE, " +
			"plus contradictory/repeated requests and abrupt disconnects; after every step the probe (ack'd publish+event; every 3rd step also call+yield and wamp.session.count) must complete at quiescence; " +
			"non-trivial = case in which >=10 distinct (message type, position, value kind, session state) tuples reached the router; distinct = hash of the script",
		Required: []string{"RB1", "RB3", "RB4"},
		Level:    "exploration",
	})
}

var hostileStrings = []string{"", " ", "a", "wamp.", "wamp.error.invalid_uri", ".", "..", "a..b", "#", "a b", "prefix", "wildcard", "exact", "bogus",
	"roundrobin", "single", "kill", "skip", "killnowait", "wamp", "mqtt", "x_custom", "native", "cbor", "json", "msgpack", "\x00", "日本", strings.Repeat("x", 70000)}

func hostileValue(r *rand.Rand, depth int) any {
	k := r.IntN(16)
	if depth > 2 && k >= 12 {
		k = r.IntN(12)
	}
	switch k {
	case 0:
		return nil
	case 1:
		return true
	case 2:
		return false
	case 3:
		return pick(r, []any{0, 1, -1, 2, 1 << 31, -(1 << 31), 1 << 53, 1<<53 + 1, math.MaxInt64, math.MinInt64, 500, 64, 65})
	case 4:
		return pick(r, []any{uint64(1) << 63, uint64(math.MaxUint64), uint64(0), uint64(1)<<53 + 1})
	case 5:
		return pick(r, []any{0.0, 1.0, -1.0, 0.5, 1e308, -1e308, math.Copysign(0, -1), 9007199254740993.0, 1e19, 5e-324})
	case 6, 7:
		return pick(r, hostileStrings)
	case 8:
		return []byte{0, 1, 2, 255}
	case 9:
		return wamp.List{}
	case 10:
		return wamp.Dict{}
	case 11:
		return wamp.URI(pick(r, hostileStrings))
	case 12, 13:
		n := r.IntN(4)
		l := make(wamp.List, n)
		for i := range l {
			l[i] = hostileValue(r, depth+1)
		}
		return l
	case 14:
		n := r.IntN(4)
		d := wamp.Dict{}
		for i := 0; i < n; i++ {
			d[pick(r, []string{"a", "", "features", "roles", "auth", "x"})] = hostileValue(r, depth+1)
		}
		return d
	default:
		return wamp.ID(pick(r, []uint64{0, 1, 1 << 53, 1<<53 + 1, math.MaxUint64}))
	}
}

func valueKind(v any) string {
	if v == nil {
		return "nil"
	}
	return reflect.TypeOf(v).String()
}

var optionKeys = []string{"acknowledge", "exclude_me", "exclude", "eligible", "exclude_authid", "eligible_authid", "exclude_authrole", "eligible_authrole", "exclude_x", "eligible_",
	"disclose_me", "ppt_scheme", "ppt_serializer", "ppt_cipher", "ppt_keyid", "match", "invoke", "disclose_caller", "forward_timeout", "timeout", "receive_progress",
	"progress", "mode", "reason", "message", "roles", "authmethods", "authid", "authrole", "authextra", "transport", "session", "procedure", "topic", "all"}

var metaProcs = []string{"wamp.session.count", "wamp.session.list", "wamp.session.get", "wamp.session.kill", "wamp.session.kill_by_authid", "wamp.session.kill_by_authrole",
	"wamp.session.modify_details", "wamp.session.add_testament", "wamp.session.flush_testaments", "wamp.registration.list", "wamp.registration.lookup",
	"wamp.registration.match", "wamp.registration.get", "wamp.registration.list_callees", "wamp.registration.count_callees", "wamp.subscription.list", "wamp.subscription.lookup",
	"wamp.subscription.match", "wamp.subscription.get", "wamp.subscription.list_subscribers", "wamp.subscription.count_subscribers", "wamp.subscription.get_events"}

var metaKwKeys = []string{"reason", "message", "scope", "publish_options", "limit", "reverse", "from_time", "after_time", "before_time", "until_time", "topic",
	"from_publication", "after_publication", "before_publication", "until_publication"}

// hostile is one hostile session.
type hostile struct {
	p      *sim.Puppet
	state  string // prehello, challenged, attached, goodbye, gone
	req    uint64
	subs   []uint64 // ids seen in SUBSCRIBED
	regs   []uint64
	invs   []uint64 // invocation request ids received
	calls  []uint64 // own call request ids
	feats  bool
}

func (h *hostile) nextReq() wamp.ID { h.req++; return wamp.ID(h.req) }

func (h *hostile) absorb() {
	for _, o := range h.p.Take() {
		switch m := o.Msg.(type) {
		case *wamp.Welcome:
			h.state = "attached"
		case *wamp.Challenge:
			h.state = "challenged"
		case *wamp.Subscribed:
			h.subs = append(h.subs, uint64(m.Subscription))
		case *wamp.Registered:
			h.regs = append(h.regs, uint64(m.Registration))
		case *wamp.Invocation:
			h.invs = append(h.invs, uint64(m.Request))
		case *wamp.Abort, *wamp.Goodbye:
			h.state = "gone"
		}
		if o.Closed {
			h.state = "gone"
		}
	}
}

func pickID(r *rand.Rand, known []uint64) wamp.ID {
	if len(known) > 0 && chance(r, 70) {
		return wamp.ID(pick(r, known))
	}
	return wamp.ID(pick(r, []uint64{0, 1, 2, 3, 1 << 53, 1<<53 + 1, math.MaxUint64, 12345}))
}

// template builds a plausible message of type t for hostile session h.
func (h *hostile) template(r *rand.Rand, t wamp.MessageType) wamp.Message {
	uri := wamp.URI(pick(r, []string{"a", "a.b", "a.b.c", "probe.topic", "probe.proc", "", "a.", "a..c", "wamp.session.get", "zz"}))
	args := wamp.List{"h", 1}
	switch t {
	case wamp.HELLO:
		return &wamp.Hello{Realm: wamp.URI(pick(r, []string{"realm1", "realm1", "", "nope", "tmpl.new"})), Details: wamp.Dict{"roles": sim.AllFeatures()}}
	case wamp.WELCOME:
		return &wamp.Welcome{ID: 5, Details: wamp.Dict{}}
	case wamp.ABORT:
		return &wamp.Abort{Details: wamp.Dict{}, Reason: "wamp.error.x"}
	case wamp.CHALLENGE:
		return &wamp.Challenge{AuthMethod: "wampcra", Extra: wamp.Dict{}}
	case wamp.AUTHENTICATE:
		return &wamp.Authenticate{Signature: "sig", Extra: wamp.Dict{}}
	case wamp.GOODBYE:
		return &wamp.Goodbye{Details: wamp.Dict{}, Reason: "wamp.close.close_realm"}
	case wamp.ERROR:
		return &wamp.Error{Type: pick(r, []wamp.MessageType{wamp.INVOCATION, wamp.INVOCATION, wamp.CALL, wamp.PUBLISH, 0, 99}), Request: pickID(r, h.invs), Details: wamp.Dict{}, Error: "com.err", Arguments: args}
	case wamp.PUBLISH:
		return &wamp.Publish{Request: h.nextReq(), Options: wamp.Dict{"acknowledge": chance(r, 50)}, Topic: uri, Arguments: args, ArgumentsKw: wamp.Dict{"k": 1}}
	case wamp.PUBLISHED:
		return &wamp.Published{Request: 1, Publication: 2}
	case wamp.SUBSCRIBE:
		return &wamp.Subscribe{Request: h.nextReq(), Options: wamp.Dict{}, Topic: uri}
	case wamp.SUBSCRIBED:
		return &wamp.Subscribed{Request: 1, Subscription: 2}
	case wamp.UNSUBSCRIBE:
		return &wamp.Unsubscribe{Request: h.nextReq(), Subscription: pickID(r, h.subs)}
	case wamp.UNSUBSCRIBED:
		return &wamp.Unsubscribed{Request: 1}
	case wamp.EVENT:
		return &wamp.Event{Subscription: 1, Publication: 2, Details: wamp.Dict{}}
	case wamp.CALL:
		proc := uri
		if chance(r, 35) {
			proc = wamp.URI(pick(r, metaProcs))
		}
		m := &wamp.Call{Request: h.nextReq(), Options: wamp.Dict{}, Procedure: proc, Arguments: args}
		if strings.HasPrefix(string(proc), "wamp.") {
			m.Arguments = wamp.List{}
			for i := r.IntN(4); i > 0; i-- {
				m.Arguments = append(m.Arguments, hostileValue(r, 1))
			}
			if chance(r, 50) {
				m.ArgumentsKw = wamp.Dict{pick(r, metaKwKeys): hostileValue(r, 1)}
			}
		}
		h.calls = append(h.calls, uint64(m.Request))
		return m
	case wamp.CANCEL:
		return &wamp.Cancel{Request: pickID(r, h.calls), Options: wamp.Dict{"mode": pick(r, []string{"kill", "skip", "killnowait"})}}
	case wamp.RESULT:
		return &wamp.Result{Request: 1, Details: wamp.Dict{}}
	case wamp.REGISTER:
		return &wamp.Register{Request: h.nextReq(), Options: wamp.Dict{}, Procedure: uri}
	case wamp.REGISTERED:
		return &wamp.Registered{Request: 1, Registration: 2}
	case wamp.UNREGISTER:
		return &wamp.Unregister{Request: h.nextReq(), Registration: pickID(r, h.regs)}
	case wamp.UNREGISTERED:
		return &wamp.Unregistered{Request: 1}
	case wamp.INVOCATION:
		return &wamp.Invocation{Request: 1, Registration: 2, Details: wamp.Dict{}}
	case wamp.INTERRUPT:
		return &wamp.Interrupt{Request: 1, Options: wamp.Dict{}}
	case wamp.YIELD:
		return &wamp.Yield{Request: pickID(r, h.invs), Options: wamp.Dict{}, Arguments: args}
	}
	return &wamp.Goodbye{}
}

// corrupt replaces 1..3 positions of m by hostile values; returns a description.
func corrupt(r *rand.Rand, m wamp.Message) string {
	v := reflect.ValueOf(m).Elem()
	var desc []string
	for n := 1 + r.IntN(3); n > 0; n-- {
		i := r.IntN(v.NumField())
		f := v.Field(i)
		name := v.Type().Field(i).Name
		switch f.Interface().(type) {
		case wamp.Dict:
			d, _ := f.Interface().(wamp.Dict)
			if d == nil || chance(r, 10) {
				if chance(r, 50) {
					f.Set(reflect.Zero(f.Type()))
					desc = append(desc, name+"=nil")
					continue
				}
				d = wamp.Dict{}
				f.Set(reflect.ValueOf(d))
			}
			key := pick(r, optionKeys)
			if name == "ArgumentsKw" {
				key = pick(r, metaKwKeys)
			}
			hv := hostileValue(r, 0)
			d[key] = hv
			desc = append(desc, fmt.Sprintf("%s.%s=%s", name, key, valueKind(hv)))
		case wamp.List:
			var l wamp.List
			for k := r.IntN(4); k > 0; k-- {
				l = append(l, hostileValue(r, 0))
			}
			f.Set(reflect.ValueOf(l))
			desc = append(desc, fmt.Sprintf("%s=list%d", name, len(l)))
		case wamp.ID:
			f.SetUint(pick(r, []uint64{0, 1, 2, 1 << 53, 1<<53 + 1, math.MaxUint64, 1 << 63}))
			desc = append(desc, name+"=id")
		case wamp.URI:
			f.SetString(pick(r, hostileStrings))
			desc = append(desc, name+"=uri")
		case string:
			f.SetString(pick(r, hostileStrings))
			desc = append(desc, name+"=str")
		case wamp.MessageType:
			f.SetInt(int64(pick(r, []int{0, 1, 8, 16, 48, 68, 70, 99, -1})))
			desc = append(desc, name+"=type")
		}
	}
	sort.Strings(desc)
	return strings.Join(desc, ",")
}

// rawList encodes a message as a generic list in which positions may hold any
// value kind (only for network puppets).
func rawCorrupt(r *rand.Rand, k sim.Kind, m wamp.Message) ([]byte, string) {
	v := reflect.ValueOf(m).Elem()
	l := []any{int(m.MessageType())}
	for i := 0; i < v.NumField(); i++ {
		l = append(l, v.Field(i).Interface())
	}
	var desc string
	switch r.IntN(5) {
	case 0: // wrong kind in a position
		i := r.IntN(len(l))
		hv := hostileValue(r, 0)
		l[i] = hv
		desc = fmt.Sprintf("pos%d=%s", i, valueKind(hv))
	case 1: // truncated list
		l = l[:r.IntN(len(l)+1)]
		desc = fmt.Sprintf("len=%d", len(l))
	case 2: // extra elements
		l = append(l, hostileValue(r, 0), hostileValue(r, 0))
		desc = "extra"
	case 3: // unknown / odd code
		l[0] = pick(r, []any{0, 7, 9, 255, 256, -1, 1.5, "1", nil, uint64(1) << 63})
		desc = "code=" + valueKind(l[0])
	default:
		i := 1 + r.IntN(len(l)-1+1)
		if i >= len(l) {
			i = len(l) - 1
		}
		if i > 0 {
			l[i] = nil
		}
		desc = fmt.Sprintf("pos%d=nil", i)
	}
	var h codec.Handle
	switch k {
	case sim.RawJSON, sim.WSJSON:
		h = &codec.JsonHandle{}
	case sim.RawMsgpack, sim.WSMsgpack:
		mh := &codec.MsgpackHandle{}
		mh.WriteExt = true
		h = mh
	default:
		h = &codec.CborHandle{}
	}
	var b []byte
	if err := codec.NewEncoderBytes(&b, h).Encode(l); err != nil {
		return nil, desc
	}
	return b, "raw:" + desc
}

type c04Keys struct{}

func (c04Keys) AuthKey(authid, authmethod string) ([]byte, error) { return []byte("secret-" + authid), nil }
func (c04Keys) PasswordInfo(authid string) (string, int, int)   { return "", 0, 0 }
func (c04Keys) AuthRole(authid string) (string, error)          { return "user", nil }
func (c04Keys) Provider() string                                { return "static" }

func runC04(c *Case) {
	r := c.Rng
	tuples := map[string]bool{}
	var script []string
	var setups []string
	panicText := c.Bubble(func() {
		cfg := &router.Config{
			RealmConfigs: []*router.RealmConfig{{
				URI: "realm1", AnonymousAuth: true, AllowDisclose: chance(r, 50), StrictURI: chance(r, 30), EnableMetaKill: true, EnableMetaModify: true,
				Authenticators: []auth.Authenticator{&tableAuth{roles: authTable}, auth.NewCRAuthenticator(c04Keys{}, time.Minute)},
				TopicEventHistoryConfigs: []*router.TopicEventHistoryConfig{{Topic: "a.b", MatchPolicy: "prefix", Limit: 3}},
				MetaStrict:               chance(r, 30),
			}},
		}
		if chance(r, 50) {
			cfg.RealmTemplate = &router.RealmConfig{AnonymousAuth: true}
		}
		w, err := sim.NewWorld(cfg)
		if err != nil {
			c.Fail("HARNESS", "world", "cannot create world: %v", err)
			return
		}
		// probe sessions
		p0 := w.AddPuppet(sim.PuppetSpec{Kind: sim.Local})
		p1 := w.AddPuppet(sim.PuppetSpec{Kind: randomKind(r, 60)})
		p0.Join("realm1", wamp.Dict{"roles": sim.AllFeatures()})
		p1.Join("realm1", wamp.Dict{"roles": sim.AllFeatures()})
		p1.Send(&wamp.Subscribe{Request: 1, Options: wamp.Dict{}, Topic: "probe.topic"})
		p1.Send(&wamp.Register{Request: 2, Options: wamp.Dict{}, Procedure: "probe.proc"})
		w.Wait()
		p0.Take()
		p1.Take()
		if p0.SID == 0 || p1.SID == 0 {
			c.Fail("HARNESS", "probe join", "probe sessions could not join")
			return
		}
		probeReq := uint64(100)
		stalledOne := false // a hostile session has stopped reading
		probe := func(full bool, after string) bool {
			probeReq++
			tok := fmt.Sprintf("probe-%d", probeReq)
			p0.Send(&wamp.Publish{Request: wamp.ID(probeReq), Options: wamp.Dict{"acknowledge": true}, Topic: "probe.topic", Arguments: wamp.List{tok}})
			w.Wait()
			c.Hit("RB3")
			okPub, okEv := false, false
			fail := func(what string) bool {
				c.Fail("RB3", "probe failed: "+what+" after "+classOf(after), "after hostile step %q the uninvolved probe sessions were not served: %s\n P0 saw: %s\n P1 saw: %s",
					after, what, obsString(p0.Log(), 6), obsString(p1.Log(), 6))
				return false
			}
			for _, o := range p0.Take() {
				if m, ok := o.Msg.(*wamp.Published); ok && uint64(m.Request) == probeReq {
					okPub = true
				}
				if o.Closed {
					c.Hit("RB4")
					c.Fail("RB4", "probe session closed after "+classOf(after), "probe P0 lost its transport after hostile step %q", after)
					return false
				}
			}
			for _, o := range p1.Take() {
				if m, ok := o.Msg.(*wamp.Event); ok && len(m.Arguments) > 0 && m.Arguments[0] == tok {
					okEv = true
				}
				if _, ok := o.Msg.(*wamp.Goodbye); ok || o.Closed {
					c.Fail("RB4", "probe session closed after "+classOf(after), "probe P1 was ended after hostile step %q: %s", after, o.Snap)
					return false
				}
			}
			c.Hit("RB4")
			if !okPub || !okEv {
				return fail(fmt.Sprintf("published=%v event=%v", okPub, okEv))
			}
			if !full {
				return true
			}
			probeReq++
			p0.Send(&wamp.Call{Request: wamp.ID(probeReq), Options: wamp.Dict{}, Procedure: "probe.proc", Arguments: wamp.List{tok}})
			w.Wait()
			var inv wamp.ID
			for _, o := range p1.Take() {
				if m, ok := o.Msg.(*wamp.Invocation); ok && len(m.Arguments) > 0 && m.Arguments[0] == tok {
					inv = m.Request
				}
			}
			if inv == 0 {
				return fail("no INVOCATION for the probe call")
			}
			p1.Send(&wamp.Yield{Request: inv, Options: wamp.Dict{}, Arguments: wamp.List{tok}})
			w.Wait()
			okRes := false
			for _, o := range p0.Take() {
				if m, ok := o.Msg.(*wamp.Result); ok && uint64(m.Request) == probeReq {
					okRes = true
				}
			}
			if !okRes {
				return fail("no RESULT for the probe call")
			}
			probeReq++
			p0.Send(&wamp.Call{Request: wamp.ID(probeReq), Options: wamp.Dict{}, Procedure: "wamp.session.count"})
			w.Wait()
			okCnt := false
			for _, o := range p0.Take() {
				if m, ok := o.Msg.(*wamp.Result); ok && uint64(m.Request) == probeReq {
					okCnt = true
				}
			}
			if !okCnt && stalledOne {
				// a session that stopped reading may have called a meta procedure: the realm's meta session then
				// retries that RESULT for up to a minute (the documented hold, see C07) before it serves the next call
				w.Advance(65 * time.Second)
				for _, o := range p0.Take() {
					if m, ok := o.Msg.(*wamp.Result); ok && uint64(m.Request) == probeReq {
						okCnt = true
					}
				}
			}
			if !okCnt {
				return fail("wamp.session.count unanswered")
			}
			p1.Take()
			return true
		}
		newHostile := func() *hostile {
			k := randomKind(r, 65)
			// (rawsocket: the server side sometimes has a configured receive limit below the protocol's maximum)
			h := &hostile{p: w.AddPuppet(sim.PuppetSpec{Kind: k, QSize: pick(r, []int{0, 0, 2, 8}), RecvLimit: pick(r, []int{0, 0, 1024, 4096})}), state: "prehello"}
			setups = append(setups, fmt.Sprintf("H%d %s", h.p.Idx, k))
			switch r.IntN(6) {
			case 0: // stays before HELLO
			case 1: // wampcra handshake, stops at CHALLENGE
				h.p.Send(&wamp.Hello{Realm: "realm1", Details: wamp.Dict{"roles": sim.AllFeatures(), "authmethods": wamp.List{"wampcra"}, "authid": "bob"}})
			default:
				h.feats = chance(r, 60)
				d := wamp.Dict{"roles": sim.AllFeatures()}
				if !h.feats {
					// announce only some roles, without features; the router does not enforce roles
					roles := map[string][]string{}
					for _, role := range []string{"caller", "callee", "publisher", "subscriber"} {
						if chance(r, 55) {
							roles[role] = nil
						}
					}
					if len(roles) == 0 {
						roles[pick(r, []string{"callee", "subscriber"})] = nil
					}
					d["roles"] = sim.Roles(roles)
				}
				if k != sim.Local && chance(r, 50) {
					d["authmethods"] = wamp.List{"vtable"}
					d["authid"] = pick(r, authIDs)
				}
				h.p.Send(&wamp.Hello{Realm: "realm1", Details: d})
			}
			w.Wait()
			h.absorb()
			return h
		}
		var hs []*hostile
		for i := 2 + r.IntN(3); i > 0; i-- {
			hs = append(hs, newHostile())
		}
		// some legitimate state for the hostile sessions to collide with
		for _, h := range hs {
			if h.state == "attached" {
				h.p.Send(&wamp.Subscribe{Request: h.nextReq(), Options: wamp.Dict{"match": "prefix"}, Topic: "a"})
				h.p.Send(&wamp.Register{Request: h.nextReq(), Options: wamp.Dict{"invoke": pick(r, []string{"roundrobin", "first", "bogus", "random"})}, Procedure: "a.b"})
			}
		}
		w.Wait()
		for _, h := range hs {
			h.absorb()
		}
		for step := 0; step < 25; step++ {
			h := pick(r, hs)
			if h.state == "stalled" {
				// a session that has stopped reading sends nothing more after its recipe (further meta calls by it
				// would each add a minute of the meta session's documented result-retry hold, which C07 decides)
				continue
			}
			if h.state == "gone" && chance(r, 70) {
				nh := newHostile()
				hs = append(hs, nh)
				h = nh
			}
			var desc string
			attached := func() []*hostile {
				var out []*hostile
				for _, x := range hs {
					if x.state == "attached" {
						out = append(out, x)
					}
				}
				return out
			}
			sendRawTo := func(x *hostile, b []byte) {
				if x.p.Kind.IsRaw() {
					x.p.SendRaw(b, 0)
				}
			}
			switch x := r.IntN(100); {
			case x < 22: // multi-step recipes of contradictory / correlated requests
				at := attached()
				switch rec := r.IntN(13); {
				case rec == 12: // a testament whose publish options ask for payload passthru, then its owner leaves
					if len(at) == 0 {
						continue
					}
					a := pick(r, at)
					po := wamp.Dict{"ppt_scheme": pick(r, []string{"x_custom", "mqtt", "wamp"}), "ppt_serializer": pick(r, []any{"native", "cbor", 5})}
					if chance(r, 30) {
						po["disclose_me"] = true
					}
					if chance(r, 50) {
						po = wamp.Dict{} // plain options
					}
					if chance(r, 60) {
						po["acknowledge"] = true // the broker's PUBLISHED or ERROR then goes to the realm's meta peer
					}
					ttopic := pick(r, []string{"probe.topic", "probe.topic", "a..b", "", "wamp.x"})
					a.p.Send(&wamp.Call{Request: a.nextReq(), Options: wamp.Dict{}, Procedure: "wamp.session.add_testament",
						Arguments: wamp.List{ttopic, wamp.List{"testament"}, wamp.Dict{}}, ArgumentsKw: wamp.Dict{"publish_options": po, "scope": pick(r, []string{"destroyed", "detached"})}})
					w.Wait()
					a.p.Drop()
					a.state = "gone"
					desc = "recipe[attached] testament with passthru/acknowledge publish options (valid or invalid topic), owner drops"
				case rec == 10 && len(at) >= 2: // a registration with an unknown match policy is emptied and registered again, then its holder leaves
					a, b := at[0], at[1]
					proc := wamp.URI(pick(r, []string{"r.match", "a.b", "r.two"}))
					opts := func() wamp.Dict {
						return wamp.Dict{"match": pick(r, []string{"regex", "glob", "EXACT", "Prefix", "wild"}), "invoke": pick(r, []string{"roundrobin", "first", "last", "random"})}
					}
					o := opts()
					a.p.Send(&wamp.Register{Request: a.nextReq(), Options: o, Procedure: proc})
					w.Wait()
					a.absorb()
					if chance(r, 50) {
						a.p.Send(&wamp.Unregister{Request: a.nextReq(), Registration: pickID(r, a.regs[max(0, len(a.regs)-1):])})
					} else {
						a.p.Drop()
						a.state = "gone"
					}
					w.Wait()
					b.p.Send(&wamp.Register{Request: b.nextReq(), Options: o, Procedure: proc})
					w.Wait()
					b.p.Send(&wamp.Call{Request: b.nextReq(), Options: wamp.Dict{}, Procedure: proc})
					w.Wait()
					b.p.Drop()
					b.state = "gone"
					desc = fmt.Sprintf("recipe[attached] REGISTER match=%v invoke=%v, emptied, registered again, holder drops", o["match"], o["invoke"])
				case rec == 11: // event history queried with hostile filters
					if len(at) == 0 {
						continue
					}
					a := pick(r, at)
					a.p.Send(&wamp.Subscribe{Request: a.nextReq(), Options: wamp.Dict{"match": "prefix"}, Topic: "a.b"})
					w.Wait()
					a.absorb()
					for k := 0; k < 3; k++ {
						kw := wamp.Dict{}
						for n := 1 + r.IntN(3); n > 0; n-- {
							kw[pick(r, metaKwKeys)] = hostileValue(r, 0)
						}
						if chance(r, 60) {
							kw["limit"] = pick(r, []any{1 << 53, 1<<53 + 1, int64(math.MaxInt64), uint64(1) << 63, uint64(math.MaxUint64), 1 << 40, -1, 0, 1e300, "10"})
						}
						a.p.Send(&wamp.Call{Request: a.nextReq(), Options: wamp.Dict{}, Procedure: "wamp.subscription.get_events", Arguments: wamp.List{pickID(r, a.subs)}, ArgumentsKw: kw})
					}
					desc = "recipe[attached] get_events on a history subscription with hostile filters"
				case rec == 9 && len(at) >= 2: // a caller vanishes while its call is pending, then the callee answers
					a, b := at[0], at[1]
					if chance(r, 50) {
						a, b = b, a
					}
					proc := wamp.URI("r.pending")
					b.p.Send(&wamp.Register{Request: b.nextReq(), Options: wamp.Dict{}, Procedure: proc})
					w.Wait()
					a.p.Send(&wamp.Call{Request: a.nextReq(), Options: wamp.Dict{"receive_progress": true}, Procedure: proc, Arguments: wamp.List{1}})
					w.Wait()
					b.absorb()
					a.p.Drop()
					a.state = "gone"
					w.Wait()
					for _, prog := range []bool{true, false} {
						b.p.Send(&wamp.Yield{Request: pickID(r, b.invs), Options: wamp.Dict{"progress": prog}, Arguments: wamp.List{1}})
					}
					desc = fmt.Sprintf("recipe[attached feats=%v] CALL, caller drops, callee YIELDs", a.feats)
				case rec == 0 && len(at) >= 2: // same unknown invocation policy twice, then a call
					pol := pick(r, []string{"bogus", "", "ROUNDROBIN", "firstlast"})
					proc := wamp.URI(pick(r, []string{"r.one", "a.b", "r.two"}))
					a, b := at[0], at[1]
					a.p.Send(&wamp.Register{Request: a.nextReq(), Options: wamp.Dict{"invoke": pol}, Procedure: proc})
					b.p.Send(&wamp.Register{Request: b.nextReq(), Options: wamp.Dict{"invoke": pol}, Procedure: proc})
					w.Wait()
					p0.Send(&wamp.Call{Request: 7000 + wamp.ID(step), Options: wamp.Dict{}, Procedure: proc})
					desc = fmt.Sprintf("recipe[attached] two REGISTER invoke=%q then CALL", pol)
				case rec == 1 && len(at) >= 1: // payload passthru options, correlated
					a := pick(r, at)
					opts := wamp.Dict{"ppt_scheme": pick(r, []any{"wamp", "mqtt", "x_custom", "", 5, nil, true})}
					for _, k := range []string{"ppt_serializer", "ppt_cipher", "ppt_keyid"} {
						if chance(r, 70) {
							opts[k] = hostileValue(r, 0)
						}
					}
					switch r.IntN(3) {
					case 0:
						opts["acknowledge"] = true
						a.p.Send(&wamp.Publish{Request: a.nextReq(), Options: opts, Topic: "probe.topic", Arguments: wamp.List{[]byte{1}}})
					case 1:
						a.p.Send(&wamp.Call{Request: a.nextReq(), Options: opts, Procedure: "probe.proc", Arguments: wamp.List{[]byte{1}}})
					default:
						a.p.Send(&wamp.Yield{Request: pickID(r, a.invs), Options: opts, Arguments: wamp.List{[]byte{1}}})
					}
					desc = "recipe[attached] ppt options " + fmt.Sprint(len(opts))
				case rec == 2 && len(at) >= 1: // progressive call from a caller that did not announce the feature, then more traffic
					a := pick(r, at)
					a.p.Send(&wamp.Call{Request: a.nextReq(), Options: wamp.Dict{"progress": true}, Procedure: "probe.proc"})
					a.p.Send(&wamp.Subscribe{Request: a.nextReq(), Options: wamp.Dict{}, Topic: "a"})
					a.p.Send(&wamp.Goodbye{Details: wamp.Dict{}, Reason: "wamp.close.close_realm"})
					desc = fmt.Sprintf("recipe[attached feats=%v] CALL progress then SUBSCRIBE, GOODBYE", a.feats)
				case rec == 3: // rawsocket frame types and lengths
					var raws []*hostile
					for _, x := range hs {
						if x.p.Kind.IsRaw() && x.state != "gone" {
							raws = append(raws, x)
						}
					}
					if len(raws) == 0 {
						continue
					}
					a := pick(r, raws)
					typ := byte(pick(r, []int{0, 0, 1, 2, 3, 4, 5, 6, 7, 8, 0x10, 0xff, 0x81}))
					n := pick(r, []int{0, 1, 5, 300})
					frame := sim.EncodeFrame(typ, make([]byte, n))
					if chance(r, 20) {
						frame[1], frame[2], frame[3] = 0xff, 0xff, 0xff // declared length 16M-1 with a short body
					} else if chance(r, 40) {
						// a declared length just above a configured receive limit (1 KiB / 4 KiB), with or without a body
						l := pick(r, []int{1025, 2048, 4097, 70000})
						frame[1], frame[2], frame[3] = byte(l>>16), byte(l>>8), byte(l)
						if chance(r, 50) {
							frame = append(frame[:4], make([]byte, l)...)
						}
					}
					sendRawTo(a, frame)
					desc = fmt.Sprintf("recipe[%s] rawsocket frame type=%d len=%d", a.state, typ, n)
				case rec == 4 && len(at) >= 1: // repeated shared registration by one session, then it leaves, then a call
					a := pick(r, at)
					proc := wamp.URI("r.shared")
					for i := 0; i < 2; i++ {
						a.p.Send(&wamp.Register{Request: a.nextReq(), Options: wamp.Dict{"invoke": "roundrobin"}, Procedure: proc})
					}
					w.Wait()
					a.p.Drop()
					a.state = "gone"
					w.Wait()
					p0.Send(&wamp.Call{Request: 7000 + wamp.ID(step), Options: wamp.Dict{}, Procedure: proc})
					desc = "recipe[attached] REGISTER shared twice, drop, CALL"
				case rec == 5 && len(at) >= 1: // handshake messages while attached
					a := pick(r, at)
					a.p.Send(&wamp.Hello{Realm: "realm1", Details: wamp.Dict{"roles": hostileValue(r, 0)}})
					a.p.Send(&wamp.Authenticate{Signature: "x", Extra: wamp.Dict{}})
					desc = "recipe[attached] second HELLO, AUTHENTICATE"
				case rec == 6 && len(at) >= 1: // probe calls a hostile callee; it answers with hostile options
					a := pick(r, at)
					a.p.Send(&wamp.Register{Request: a.nextReq(), Options: wamp.Dict{}, Procedure: "r.h"})
					w.Wait()
					p0.Send(&wamp.Call{Request: 7000 + wamp.ID(step), Options: wamp.Dict{"receive_progress": true, "timeout": pick(r, []any{1, 1000, "x", -5, 1e300})}, Procedure: "r.h"})
					w.Wait()
					a.absorb()
					y := &wamp.Yield{Request: pickID(r, a.invs), Options: wamp.Dict{"progress": hostileValue(r, 0)}, Arguments: wamp.List{1}}
					y.Options[pick(r, optionKeys)] = hostileValue(r, 0)
					a.p.Send(y)
					a.p.Send(y)
					desc = "recipe[attached] hostile YIELD twice for a probe call"
				case rec == 7 && len(at) >= 1: // exclude/eligible of odd shapes
					a := pick(r, at)
					opts := wamp.Dict{"acknowledge": true}
					for _, k := range []string{"exclude", "eligible", "exclude_authid", "eligible_authrole"} {
						if chance(r, 60) {
							opts[k] = hostileValue(r, 0)
						}
					}
					a.p.Send(&wamp.Publish{Request: a.nextReq(), Options: opts, Topic: "probe.topic"})
					desc = "recipe[attached] PUBLISH odd exclude/eligible"
				default: // modify_details / testament with hostile shapes
					if len(at) == 0 {
						continue
					}
					a := pick(r, at)
					a.p.Send(&wamp.Call{Request: a.nextReq(), Options: wamp.Dict{}, Procedure: pick(r, []wamp.URI{"wamp.session.modify_details", "wamp.session.add_testament"}),
						Arguments: wamp.List{wamp.ID(p1.SID), hostileValue(r, 0), hostileValue(r, 0)}, ArgumentsKw: wamp.Dict{"publish_options": hostileValue(r, 0), "scope": hostileValue(r, 0)}})
					desc = "recipe[attached] modify_details/add_testament hostile"
				}
				if desc == "" {
					continue
				}
			case x < 25 && !stalledOne: // a hostile session stops reading, lets its queue fill up, and keeps asking
				var a *hostile
				for _, cand := range attached() {
					if cand.p.Kind == sim.Local {
						a = cand
					}
				}
				if a == nil {
					continue
				}
				stalledOne = true
				a.p.Send(&wamp.Subscribe{Request: a.nextReq(), Options: wamp.Dict{}, Topic: "flood.t"})
				w.Wait()
				a.absorb()
				a.p.Stall()
				for i := 0; i < 80; i++ {
					p0.Send(&wamp.Publish{Request: wamp.ID(5000 + i), Options: wamp.Dict{}, Topic: "flood.t", Arguments: wamp.List{i}})
				}
				w.Wait()
				// every one of these asks for a reply that cannot be queued
				a.p.Send(&wamp.Subscribe{Request: a.nextReq(), Options: wamp.Dict{}, Topic: "flood.t"})
				a.p.Send(&wamp.Subscribe{Request: a.nextReq(), Options: wamp.Dict{"match": "prefix"}, Topic: "flood"})
				a.p.Send(&wamp.Register{Request: a.nextReq(), Options: wamp.Dict{}, Procedure: "flood.proc"})
				a.p.Send(&wamp.Register{Request: a.nextReq(), Options: wamp.Dict{}, Procedure: "flood.proc"})
				a.p.Send(&wamp.Publish{Request: a.nextReq(), Options: wamp.Dict{"acknowledge": true, "exclude_me": false}, Topic: "flood.t", Arguments: wamp.List{"self"}})
				// (no meta procedure call here: its RESULT would be retried for up to a minute by the realm's meta
				// session, the documented hold that C07 accounts for, during which joins wait on a mutex - a wait the
				// bubble cannot see through)
				a.p.Send(&wamp.Call{Request: a.nextReq(), Options: wamp.Dict{}, Procedure: "flood.proc"})
				a.p.Send(&wamp.Unsubscribe{Request: a.nextReq(), Subscription: pickID(r, a.subs)})
				a.p.Send(&wamp.Unregister{Request: a.nextReq(), Registration: pickID(r, a.regs)})
				a.state = "stalled"
				desc = "recipe[attached] session stops reading with a full queue, then repeated SUBSCRIBE/REGISTER/PUBLISH/CALL/UNSUBSCRIBE/UNREGISTER"
			case x < 27: // abrupt disconnect
				h.p.Drop()
				desc = fmt.Sprintf("H%d[%s] drop", h.p.Idx, h.state)
				h.state = "gone"
			case x < 31: // repeated / contradictory request
				m := h.template(r, pick(r, []wamp.MessageType{wamp.REGISTER, wamp.SUBSCRIBE, wamp.CALL, wamp.HELLO}))
				h.p.Send(m)
				h.p.Send(m)
				desc = fmt.Sprintf("H%d[%s] %s twice", h.p.Idx, h.state, m.MessageType())
			default:
				t := pick(r, allCodes)
				if chance(r, 55) {
					t = pick(r, []wamp.MessageType{wamp.PUBLISH, wamp.CALL, wamp.YIELD, wamp.REGISTER, wamp.SUBSCRIBE, wamp.CANCEL, wamp.ERROR, wamp.HELLO, wamp.AUTHENTICATE})
				}
				m := h.template(r, t)
				if h.p.Kind != sim.Local && chance(r, 25) {
					b, d := rawCorrupt(r, h.p.Kind, m)
					if b != nil {
						if h.p.Kind.IsRaw() {
							h.p.SendRaw(sim.EncodeFrame(0, b), 0)
						} else {
							typ := sim.WSBinary
							if h.p.Kind == sim.WSJSON {
								typ = sim.WSText
							}
							h.p.SendRaw(b, typ)
						}
						desc = fmt.Sprintf("H%d[%s] %s %s", h.p.Idx, h.state, t, d)
					}
				}
				if desc == "" {
					d := "valid"
					if chance(r, 85) {
						d = corrupt(r, m)
					}
					h.p.Send(m)
					desc = fmt.Sprintf("H%d[%s] %s %s", h.p.Idx, h.state, t, d)
				}
			}
			c.Tracef("[%d] %s", step, desc)
			script = append(script, desc)
			tuples[classOf(desc)] = true
			w.Wait()
			if step%5 == 4 {
				w.Advance(pick(r, []time.Duration{time.Millisecond, time.Second, 6 * time.Second, 2 * time.Minute}))
			}
			for _, x := range hs {
				x.absorb()
			}
			c.Hit("RB1")
			if !probe(step%3 == 2, desc) {
				break
			}
		}
		c.Add("steps", float64(len(script)))
		rep := w.Teardown()
		if !rep.CloseReturned {
			c.Fail("SD1", "router close did not return", "Router.Close() did not return after the hostile script")
		}
		for _, g := range rep.Leaked {
			c.Fail("SD5", "goroutine left after close: "+leakSig(g), "goroutine with nexus frames alive after Close:\n%s", g)
		}
	})
	if panicText != "" {
		c.Fail("RB1", "bubble panic: "+firstLine(panicText), "%s", panicText)
	}
	c.NT = len(tuples) >= 10
	c.Add("distinct_tuples_in_case", float64(len(tuples)))
	c.Key = strings.Join(setups, ";") + "|" + strings.Join(script, "\n")
	if c.Index < 3 || len(c.Viol) > 0 {
		c.Sample = map[string]any{"sessions": setups, "script": clip(script, 60)}
	}
}

// classOf strips the puppet number from a step description.
func classOf(desc string) string {
	if i := strings.IndexByte(desc, '['); i >= 0 {
		desc = desc[i:]
	}
	if len(desc) > 90 {
		desc = desc[:90]
	}
	return desc
}

func obsString(l []sim.Obs, n int) string {
	if len(l) > n {
		l = l[len(l)-n:]
	}
	var parts []string
	for _, o := range l {
		switch {
		case o.Closed:
			parts = append(parts, "<closed>")
		case o.Msg != nil:
			s := o.Snap
			if len(s) > 160 {
				s = s[:160]
			}
			parts = append(parts, s)
		}
	}
	return strings.Join(parts, " ; ")
}
