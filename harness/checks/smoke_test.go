package checks

import (
	"fmt"
	"testing"
	"testing/synctest"

	"github.com/gammazero/nexus/v3/router"
	"github.com/gammazero/nexus/v3/wamp"

	"verif/harness/sim"
)

func TestSmoke(t *testing.T) {
	synctest.Test(t, func(t *testing.T) {
		w, err := sim.NewWorld(&router.Config{RealmConfigs: []*router.RealmConfig{{URI: "r1", AnonymousAuth: true, AllowDisclose: true}}})
		if err != nil {
			t.Fatal(err)
		}
		for k := sim.Local; k < sim.NumKinds; k++ {
			p := w.AddPuppet(sim.PuppetSpec{Kind: k})
			obs := p.Join("r1", wamp.Dict{"roles": sim.AllFeatures()})
			if p.SID == 0 {
				t.Fatalf("%v did not join: %+v", p, obs)
			}
		}
		for i, p := range w.Puppets {
			p.Send(&wamp.Subscribe{Request: 1, Topic: "a.b", Options: wamp.Dict{}})
			_ = i
		}
		w.Wait()
		w.Puppets[0].Send(&wamp.Publish{Request: 2, Topic: "a.b", Options: wamp.Dict{"acknowledge": true}, Arguments: wamp.List{1, "x", 2.5}})
		w.Wait()
		for _, p := range w.Puppets {
			for _, o := range p.Take() {
				fmt.Println(p, o.At, o.Snap, o.Err)
			}
		}
		rep := w.Teardown()
		fmt.Println("close returned", rep.CloseReturned, "leaked", len(rep.Leaked))
		for _, p := range w.Puppets {
			for _, o := range p.Take() {
				fmt.Println(p, o.At, o.Snap, o.Closed)
			}
		}
	})
}
