package checks

import (
	"context"
	"errors"
	"fmt"
	"io"
	"net"
	"net/http"
	"os"
	"path/filepath"
	"strings"
	"sync"
	"time"

	"github.com/gammazero/nexus/v3/router"
	"github.com/gammazero/nexus/v3/transport"
	"github.com/gammazero/nexus/v3/transport/serialize"
	"github.com/gammazero/nexus/v3/wamp"

	"verif/harness/canon"
	"verif/harness/sim"
)

// Engine "live": the router behind its real servers (router.RawSocketServer,
// router.WebsocketServer) on unix-domain or loopback TCP sockets, driven by the
// project's own client-side transports (transport.ConnectRawSocketPeer,
// transport.ConnectWebsocketPeer: real gorilla framing and HTTP upgrade). It
// runs in real time outside the bubble, so its oracles only count and compare
// what was received; waiting is closed-loop (acknowledgements, markers) under a
// generous wall-clock watchdog whose firing makes the case inconclusive, never
// a violation.

const liveWatchdog = 90 * time.Second

var errLiveWatchdog = errors.New("live watchdog")

type liveNet struct {
	kind    string // raw-unix, raw-tcp, ws-unix, ws-tcp
	rtr     router.Router
	closers []io.Closer
	dir     string
	addr    string
	log     *sim.LogBuf
}

type liveServerCfg struct {
	OutQueueSize int
	RecvLimit    int
	KeepAlive    time.Duration
}

func newLiveNet(kind string, rc *router.RealmConfig, sc liveServerCfg) (*liveNet, error) {
	n := &liveNet{kind: kind, log: sim.NewLogBuf(400)}
	var err error
	n.rtr, err = router.NewRouter(&router.Config{RealmConfigs: []*router.RealmConfig{rc}}, n.log)
	if err != nil {
		return nil, err
	}
	n.dir, err = os.MkdirTemp("", "vlive")
	if err != nil {
		n.rtr.Close()
		return nil, err
	}
	sock := filepath.Join(n.dir, "s")
	switch kind {
	case "raw-unix", "raw-tcp":
		s := router.NewRawSocketServer(n.rtr)
		s.OutQueueSize, s.RecvLimit, s.KeepAlive = sc.OutQueueSize, sc.RecvLimit, sc.KeepAlive
		var cl io.Closer
		if kind == "raw-unix" {
			cl, err = s.ListenAndServe("unix", sock)
			n.addr = sock
		} else {
			cl, err = s.ListenAndServe("tcp", "127.0.0.1:0")
			if err == nil {
				n.addr = cl.(net.Listener).Addr().String()
			}
		}
		if err != nil {
			n.close()
			return nil, err
		}
		n.closers = append(n.closers, cl)
	case "ws-unix", "ws-tcp":
		s := router.NewWebsocketServer(n.rtr)
		s.OutQueueSize, s.KeepAlive = sc.OutQueueSize, sc.KeepAlive
		if kind == "ws-unix" {
			l, e := net.Listen("unix", sock)
			if e != nil {
				n.close()
				return nil, e
			}
			srv := &http.Server{Handler: s, ReadHeaderTimeout: 5 * time.Second}
			go srv.Serve(l) //nolint:errcheck
			n.closers = append(n.closers, l)
			n.addr = sock
		} else {
			cl, e := s.ListenAndServe("127.0.0.1:0")
			if e != nil {
				n.close()
				return nil, e
			}
			n.closers = append(n.closers, cl)
			n.addr = cl.(net.Listener).Addr().String()
		}
	default:
		n.close()
		return nil, fmt.Errorf("unknown live kind %q", kind)
	}
	return n, nil
}

func (n *liveNet) close() {
	for _, c := range n.closers {
		c.Close()
	}
	if n.rtr != nil {
		done := make(chan struct{})
		go func() { n.rtr.Close(); close(done) }()
		select {
		case <-done:
		case <-time.After(liveWatchdog):
		}
	}
	if n.dir != "" {
		os.RemoveAll(n.dir)
	}
}

// connect dials with the project's client transport.
func (n *liveNet) connect(ser serialize.Serialization, recvLimit int) (wamp.Peer, error) {
	ctx, cancel := context.WithTimeout(context.Background(), liveWatchdog)
	defer cancel()
	switch n.kind {
	case "raw-unix":
		return transport.ConnectRawSocketPeer(ctx, "unix", n.addr, ser, nil, n.log, recvLimit)
	case "raw-tcp":
		return transport.ConnectRawSocketPeer(ctx, "tcp", n.addr, ser, nil, n.log, recvLimit)
	case "ws-unix":
		cfg := &transport.WebsocketConfig{Dial: func(network, addr string) (net.Conn, error) { return net.Dial("unix", n.addr) }}
		return transport.ConnectWebsocketPeer(ctx, "ws://live.invalid/ws", ser, nil, n.log, cfg)
	default:
		return transport.ConnectWebsocketPeer(ctx, "ws://"+n.addr+"/ws", ser, nil, n.log, nil)
	}
}

// liveSess is a session driven message by message over a real client transport.
type liveSess struct {
	peer wamp.Peer
	sid  wamp.ID
	mu   sync.Mutex
	got  []wamp.Message
	held chan struct{} // closed: reader may run
	eof  chan struct{}
	wake chan struct{}
}

func (n *liveNet) join(ser serialize.Serialization, recvLimit int, details wamp.Dict) (*liveSess, error) {
	p, err := n.connect(ser, recvLimit)
	if err != nil {
		return nil, fmt.Errorf("connect: %w", err)
	}
	s := &liveSess{peer: p, held: make(chan struct{}), eof: make(chan struct{}), wake: make(chan struct{}, 1)}
	if details == nil {
		details = wamp.Dict{}
	}
	details["roles"] = sim.AllFeatures()
	if err := s.send(&wamp.Hello{Realm: "realm1", Details: details}); err != nil {
		p.Close()
		return nil, err
	}
	select {
	case m, ok := <-p.Recv():
		w, isW := m.(*wamp.Welcome)
		if !ok || !isW {
			p.Close()
			return nil, fmt.Errorf("no WELCOME: %v", m)
		}
		s.sid = w.ID
	case <-time.After(liveWatchdog):
		p.Close()
		return nil, errLiveWatchdog
	}
	close(s.held)
	go s.reader()
	return s, nil
}

func (s *liveSess) reader() {
	defer close(s.eof)
	for {
		s.mu.Lock()
		h := s.held
		s.mu.Unlock()
		<-h
		m, ok := <-s.peer.Recv()
		if !ok {
			return
		}
		s.mu.Lock()
		s.got = append(s.got, m)
		s.mu.Unlock()
		select {
		case s.wake <- struct{}{}:
		default:
		}
	}
}

// stall makes the session stop taking messages from its transport (after at most one more).
func (s *liveSess) stall() {
	s.mu.Lock()
	s.held = make(chan struct{})
	s.mu.Unlock()
}

func (s *liveSess) resume() {
	s.mu.Lock()
	h := s.held
	s.mu.Unlock()
	select {
	case <-h:
	default:
		close(h)
	}
}

func (s *liveSess) send(m wamp.Message) error {
	select {
	case s.peer.Send() <- m:
		return nil
	case <-time.After(liveWatchdog):
		return errLiveWatchdog
	}
}

func (s *liveSess) snapshot() []wamp.Message {
	s.mu.Lock()
	defer s.mu.Unlock()
	return append([]wamp.Message(nil), s.got...)
}

// waitFor blocks until pred holds over the received messages (closed-loop wait), the transport ends, or the watchdog fires.
func (s *liveSess) waitFor(pred func([]wamp.Message) bool) error {
	deadline := time.After(liveWatchdog)
	for {
		if pred(s.snapshot()) {
			return nil
		}
		select {
		case <-s.wake:
		case <-s.eof:
			if pred(s.snapshot()) {
				return nil
			}
			return io.EOF
		case <-deadline:
			return errLiveWatchdog
		}
	}
}

func hasReply(req wamp.ID) func([]wamp.Message) bool {
	return func(l []wamp.Message) bool {
		for _, m := range l {
			switch x := m.(type) {
			case *wamp.Published:
				if x.Request == req {
					return true
				}
			case *wamp.Subscribed:
				if x.Request == req {
					return true
				}
			case *wamp.Registered:
				if x.Request == req {
					return true
				}
			case *wamp.Result:
				if x.Request == req {
					return true
				}
			case *wamp.Error:
				if x.Request == req {
					return true
				}
			}
		}
		return false
	}
}

func (s *liveSess) close() {
	done := make(chan struct{})
	go func() {
		defer func() { _ = recover() }()
		s.peer.Close()
		close(done)
	}()
	select {
	case <-done:
	case <-time.After(liveWatchdog):
	}
	s.resume()
}

var liveSers = []serialize.Serialization{serialize.JSON, serialize.MSGPACK, serialize.CBOR}

// runC07Live: bounded buffering and non-blocking behind the real servers. A
// subscriber stops reading; a publisher sends n acknowledged publications of
// 32 KiB in closed loop (each PUBLISHED proves the router went on); the
// subscriber then reads again and counts what had been kept for it: at most
// OutQueueSize (as configured on the server) + the message held by the
// server's writer + the one held by the client's reader + what fits in the
// socket buffers. Events arrive in publication order and none twice.
func runC07Live(c *Case) {
	r := c.Rng
	kind := pick(r, []string{"raw-unix", "ws-unix", "raw-unix", "ws-unix", "raw-tcp", "ws-tcp"})
	q := pick(r, []int{1, 4, 16, 0})
	effQ := q
	if effQ == 0 {
		effQ = 64
	}
	const msgSize = 32 << 10
	n := effQ + 120
	subSer, pubSer := pick(r, liveSers), pick(r, liveSers)
	c.Key = fmt.Sprintf("live kind=%s q=%d n=%d sub=%v pub=%v seed=%d", kind, q, n, subSer, pubSer, c.Index)
	inconclusive := func(why string) {
		c.Add("live_cases_inconclusive", 1)
		c.Tracef("live case inconclusive: %s", why)
		c.Sample = map[string]any{"workload": "live", "inconclusive": why}
	}
	ln, err := newLiveNet(kind, &router.RealmConfig{URI: "realm1", AnonymousAuth: true}, liveServerCfg{OutQueueSize: q})
	if err != nil {
		inconclusive("cannot start servers: " + err.Error())
		return
	}
	defer ln.close()
	sub, err := ln.join(subSer, 0, nil)
	if err != nil {
		inconclusive("subscriber cannot join: " + err.Error())
		return
	}
	defer sub.close()
	pub, err := ln.join(pubSer, 0, nil)
	if err != nil {
		inconclusive("publisher cannot join: " + err.Error())
		return
	}
	defer pub.close()
	if sub.send(&wamp.Subscribe{Request: 1, Options: wamp.Dict{}, Topic: "hot"}) != nil || sub.waitFor(hasReply(1)) != nil {
		inconclusive("subscribe not answered")
		return
	}
	sub.stall()
	payload := strings.Repeat("x", msgSize)
	for i := 1; i <= n; i++ {
		if err := pub.send(&wamp.Publish{Request: wamp.ID(i), Options: wamp.Dict{"acknowledge": true}, Topic: "hot", Arguments: wamp.List{i, payload}}); err != nil {
			inconclusive(fmt.Sprintf("publisher could not send publication %d: %v", i, err))
			return
		}
		if err := pub.waitFor(hasReply(wamp.ID(i))); err != nil {
			if errors.Is(err, errLiveWatchdog) {
				// The deciding observation of "others are not blocked" in real time is an absence; only counted.
				c.Add("live_ack_watchdogs", 1)
				inconclusive(fmt.Sprintf("publication %d of %d not acknowledged within %v while a subscriber was stalled", i, n, liveWatchdog))
				return
			}
			c.Fail("LV2", "publisher disconnected while a subscriber was stalled", "the publisher's transport ended after %d of %d acknowledged publications (a stalled subscriber on a %s server with OutQueueSize=%d): %v", i-1, n, kind, q, err)
			return
		}
	}
	// everything the router was going to keep for the subscriber is now queued or dropped: read again,
	// and publish small markers until one comes through
	sub.resume()
	marker := 0
	seen := func(l []wamp.Message) bool {
		for _, m := range l {
			if ev, ok := m.(*wamp.Event); ok && len(ev.Arguments) == 1 {
				return true
			}
		}
		return false
	}
	for {
		marker++
		req := wamp.ID(n + marker)
		if pub.send(&wamp.Publish{Request: req, Options: wamp.Dict{"acknowledge": true}, Topic: "hot", Arguments: wamp.List{"marker"}}) != nil || pub.waitFor(hasReply(req)) != nil {
			inconclusive("marker publication not acknowledged")
			return
		}
		if seen(sub.snapshot()) {
			break
		}
		if marker > 20000 {
			inconclusive("marker never came through")
			return
		}
		if marker%50 == 0 {
			time.Sleep(time.Millisecond)
		}
	}
	kept, last, order, dup := 0, 0, true, false
	for _, m := range sub.snapshot() {
		ev, ok := m.(*wamp.Event)
		if !ok || len(ev.Arguments) != 2 {
			continue
		}
		k, _ := canon.AsID(ev.Arguments[0])
		kept++
		if int(k) == last {
			dup = true
		}
		if int(k) < last {
			order = false
		}
		last = int(k)
	}
	c.Hit("LV1")
	c.Hit("LV2")
	c.Add("live_events_kept_for_stalled", float64(kept))
	kernel := 0
	if strings.HasSuffix(kind, "-unix") {
		kernel = (256<<10)/msgSize + 2 // net.core.wmem_default is 208 KiB here; a unix stream has no separate receive buffer
	} else {
		kernel = (12<<20)/msgSize + 2 // tcp_wmem max + tcp_rmem max
	}
	bound := effQ + 4 + kernel // + the writer's, the client transport's and the reader's message in hand
	if bound < n {
		if kept > bound {
			c.Fail("LV1", "more messages kept for a stalled client than the configured queue allows", "%s server with OutQueueSize=%d: a subscriber that had stopped reading received %d of %d events of %d KiB after resuming; "+
				"the configured queue, the writer's and reader's message in hand and the socket buffers account for at most %d", kind, q, kept, n, msgSize>>10, bound)
		}
	}
	if kept == 0 {
		c.Fail("LV1", "nothing delivered to a slow client", "%s server with OutQueueSize=%d: the subscriber received none of the %d events published while it was not reading", kind, q, n)
	}
	if !order || dup {
		c.Fail("LV3", "events for a slow client out of order or duplicated", "%s server: event numbers received after resuming are not strictly increasing", kind)
	}
	c.NT = kept > 0 && kept < n
	c.Sample = map[string]any{"workload": "live stalled subscriber", "server": kind, "OutQueueSize": q, "published": n, "kept_for_stalled": kept, "bound": bound, "markers": marker}
}
