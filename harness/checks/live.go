package checks

import (
	"context"
	"errors"
	"fmt"
	"io"
	"net"
	"net/http"
	"os"
	"path/filepath"
	"strings"
	"sync"
	"time"

	"github.com/gammazero/nexus/v3/client"
	"github.com/gammazero/nexus/v3/router"
	"github.com/gammazero/nexus/v3/transport"
	"github.com/gammazero/nexus/v3/transport/serialize"
	"github.com/gammazero/nexus/v3/wamp"

	"verif/harness/canon"
	"verif/harness/sim"
)

// Engine "live": the router behind its real servers (router.RawSocketServer,
// router.WebsocketServer) on unix-domain or loopback TCP sockets, driven by the
// project's own client-side transports (transport.ConnectRawSocketPeer,
// transport.ConnectWebsocketPeer: real gorilla framing and HTTP upgrade). It
// runs in real time outside the bubble, so its oracles only count and compare
// what was received; waiting is closed-loop (acknowledgements, markers) under a
// generous wall-clock watchdog whose firing makes the case inconclusive, never
// a violation.

const liveWatchdog = 90 * time.Second

var errLiveWatchdog = errors.New("live watchdog")

type liveNet struct {
	kind    string // raw-unix, raw-tcp, ws-unix, ws-tcp
	rtr     router.Router
	closers []io.Closer
	dir     string
	addr    string
	log     *sim.LogBuf
}

type liveServerCfg struct {
	OutQueueSize int
	RecvLimit    int
	KeepAlive    time.Duration
}

func newLiveNet(kind string, rc *router.RealmConfig, sc liveServerCfg) (*liveNet, error) {
	n := &liveNet{kind: kind, log: sim.NewLogBuf(400)}
	var err error
	n.rtr, err = router.NewRouter(&router.Config{RealmConfigs: []*router.RealmConfig{rc}}, n.log)
	if err != nil {
		return nil, err
	}
	n.dir, err = os.MkdirTemp("", "vlive")
	if err != nil {
		n.rtr.Close()
		return nil, err
	}
	sock := filepath.Join(n.dir, "s")
	switch kind {
	case "raw-unix", "raw-tcp":
		s := router.NewRawSocketServer(n.rtr)
		s.OutQueueSize, s.RecvLimit, s.KeepAlive = sc.OutQueueSize, sc.RecvLimit, sc.KeepAlive
		var cl io.Closer
		if kind == "raw-unix" {
			cl, err = s.ListenAndServe("unix", sock)
			n.addr = sock
		} else {
			cl, err = s.ListenAndServe("tcp", "127.0.0.1:0")
			if err == nil {
				n.addr = cl.(net.Listener).Addr().String()
			}
		}
		if err != nil {
			n.close()
			return nil, err
		}
		n.closers = append(n.closers, cl)
	case "ws-unix", "ws-tcp":
		s := router.NewWebsocketServer(n.rtr)
		s.OutQueueSize, s.KeepAlive = sc.OutQueueSize, sc.KeepAlive
		if kind == "ws-unix" {
			l, e := net.Listen("unix", sock)
			if e != nil {
				n.close()
				return nil, e
			}
			srv := &http.Server{Handler: s, ReadHeaderTimeout: 5 * time.Second}
			go srv.Serve(l) //nolint:errcheck
			n.closers = append(n.closers, l)
			n.addr = sock
		} else {
			cl, e := s.ListenAndServe("127.0.0.1:0")
			if e != nil {
				n.close()
				return nil, e
			}
			n.closers = append(n.closers, cl)
			n.addr = cl.(net.Listener).Addr().String()
		}
	default:
		n.close()
		return nil, fmt.Errorf("unknown live kind %q", kind)
	}
	return n, nil
}

// settle gives the goroutines of a finished live case a moment to exit, so that they do not
// run into the next case (no verdict is taken from this).
func liveSettle() {
	for i := 0; i < 200 && sim.LiveNexusGoroutines() > 0; i++ {
		time.Sleep(10 * time.Millisecond)
	}
}

func (n *liveNet) close() {
	defer liveSettle()
	for _, c := range n.closers {
		c.Close()
	}
	if n.rtr != nil {
		done := make(chan struct{})
		go func() { n.rtr.Close(); close(done) }()
		select {
		case <-done:
		case <-time.After(liveWatchdog):
		}
	}
	if n.dir != "" {
		os.RemoveAll(n.dir)
	}
}

// connect dials with the project's client transport.
func (n *liveNet) connect(ser serialize.Serialization, recvLimit int) (wamp.Peer, error) {
	ctx, cancel := context.WithTimeout(context.Background(), liveWatchdog)
	defer cancel()
	switch n.kind {
	case "raw-unix":
		return transport.ConnectRawSocketPeer(ctx, "unix", n.addr, ser, nil, n.log, recvLimit)
	case "raw-tcp":
		return transport.ConnectRawSocketPeer(ctx, "tcp", n.addr, ser, nil, n.log, recvLimit)
	case "ws-unix":
		cfg := &transport.WebsocketConfig{Dial: func(network, addr string) (net.Conn, error) { return net.Dial("unix", n.addr) }}
		return transport.ConnectWebsocketPeer(ctx, "ws://live.invalid/ws", ser, nil, n.log, cfg)
	default:
		return transport.ConnectWebsocketPeer(ctx, "ws://"+n.addr+"/ws", ser, nil, n.log, nil)
	}
}

// realClient connects the project's client library (client.ConnectNet) to the live servers.
func (n *liveNet) realClient(ser serialize.Serialization) (*client.Client, error) {
	ctx, cancel := context.WithTimeout(context.Background(), liveWatchdog)
	defer cancel()
	cfg := client.Config{Realm: "realm1", Serialization: ser, ResponseTimeout: liveWatchdog, Logger: n.log}
	var u string
	switch n.kind {
	case "raw-unix":
		u = "unix://" + n.addr
	case "raw-tcp":
		u = "tcp://" + n.addr + "/"
	case "ws-unix":
		u = "ws://live.invalid/ws"
		cfg.WsCfg.Dial = func(network, addr string) (net.Conn, error) { return net.Dial("unix", n.addr) }
	default:
		u = "ws://" + n.addr + "/ws"
	}
	return client.ConnectNet(ctx, u, cfg)
}

// liveSess is a session driven message by message over a real client transport.
type liveSess struct {
	peer wamp.Peer
	sid  wamp.ID
	mu   sync.Mutex
	got  []wamp.Message
	held chan struct{} // closed: reader may run
	eof  chan struct{}
	wake chan struct{}
}

func (n *liveNet) join(ser serialize.Serialization, recvLimit int, details wamp.Dict) (*liveSess, error) {
	p, err := n.connect(ser, recvLimit)
	if err != nil {
		return nil, fmt.Errorf("connect: %w", err)
	}
	s := &liveSess{peer: p, held: make(chan struct{}), eof: make(chan struct{}), wake: make(chan struct{}, 1)}
	if details == nil {
		details = wamp.Dict{}
	}
	details["roles"] = sim.AllFeatures()
	if err := s.send(&wamp.Hello{Realm: "realm1", Details: details}); err != nil {
		p.Close()
		return nil, err
	}
	select {
	case m, ok := <-p.Recv():
		w, isW := m.(*wamp.Welcome)
		if !ok || !isW {
			p.Close()
			return nil, fmt.Errorf("no WELCOME: %v", m)
		}
		s.sid = w.ID
	case <-time.After(liveWatchdog):
		p.Close()
		return nil, errLiveWatchdog
	}
	close(s.held)
	go s.reader()
	return s, nil
}

func (s *liveSess) reader() {
	defer close(s.eof)
	for {
		s.mu.Lock()
		h := s.held
		s.mu.Unlock()
		<-h
		m, ok := <-s.peer.Recv()
		if !ok {
			return
		}
		s.mu.Lock()
		s.got = append(s.got, m)
		s.mu.Unlock()
		select {
		case s.wake <- struct{}{}:
		default:
		}
	}
}

// stall makes the session stop taking messages from its transport (after at most one more).
func (s *liveSess) stall() {
	s.mu.Lock()
	s.held = make(chan struct{})
	s.mu.Unlock()
}

func (s *liveSess) resume() {
	s.mu.Lock()
	h := s.held
	s.mu.Unlock()
	select {
	case <-h:
	default:
		close(h)
	}
}

func (s *liveSess) send(m wamp.Message) error {
	select {
	case s.peer.Send() <- m:
		return nil
	case <-time.After(liveWatchdog):
		return errLiveWatchdog
	}
}

func (s *liveSess) snapshot() []wamp.Message {
	s.mu.Lock()
	defer s.mu.Unlock()
	return append([]wamp.Message(nil), s.got...)
}

// waitFor blocks until pred holds over the received messages (closed-loop wait), the transport ends, or the watchdog fires.
func (s *liveSess) waitFor(pred func([]wamp.Message) bool) error {
	deadline := time.After(liveWatchdog)
	for {
		if pred(s.snapshot()) {
			return nil
		}
		select {
		case <-s.wake:
		case <-s.eof:
			if pred(s.snapshot()) {
				return nil
			}
			return io.EOF
		case <-deadline:
			return errLiveWatchdog
		}
	}
}

func hasReply(req wamp.ID) func([]wamp.Message) bool {
	return func(l []wamp.Message) bool {
		for _, m := range l {
			switch x := m.(type) {
			case *wamp.Published:
				if x.Request == req {
					return true
				}
			case *wamp.Subscribed:
				if x.Request == req {
					return true
				}
			case *wamp.Registered:
				if x.Request == req {
					return true
				}
			case *wamp.Result:
				if x.Request == req {
					return true
				}
			case *wamp.Error:
				if x.Request == req {
					return true
				}
			}
		}
		return false
	}
}

func (s *liveSess) close() {
	done := make(chan struct{})
	go func() {
		defer func() { _ = recover() }()
		s.peer.Close()
		close(done)
	}()
	select {
	case <-done:
	case <-time.After(liveWatchdog):
	}
	s.resume()
}

var liveSers = []serialize.Serialization{serialize.JSON, serialize.MSGPACK, serialize.CBOR}

// runC07Live: bounded buffering and non-blocking behind the real servers. A
// subscriber stops reading; a publisher sends n acknowledged publications of
// 32 KiB in closed loop (each PUBLISHED proves the router went on); the
// subscriber then reads again and counts what had been kept for it: at most
// OutQueueSize (as configured on the server) + the message held by the
// server's writer + the one held by the client's reader + what fits in the
// socket buffers. Events arrive in publication order and none twice.
func runC07Live(c *Case) {
	r := c.Rng
	kind := pick(r, []string{"raw-unix", "ws-unix", "raw-unix", "ws-unix", "raw-tcp", "ws-tcp"})
	q := pick(r, []int{1, 4, 16, 0})
	effQ := q
	if effQ == 0 {
		effQ = 64
	}
	const msgSize = 32 << 10
	n := effQ + 120
	subSer, pubSer := pick(r, liveSers), pick(r, liveSers)
	c.Key = fmt.Sprintf("live kind=%s q=%d n=%d sub=%v pub=%v seed=%d", kind, q, n, subSer, pubSer, c.Index)
	inconclusive := func(why string) {
		c.Add("live_cases_inconclusive", 1)
		c.Tracef("live case inconclusive: %s", why)
		c.Sample = map[string]any{"workload": "live", "inconclusive": why}
	}
	ln, err := newLiveNet(kind, &router.RealmConfig{URI: "realm1", AnonymousAuth: true}, liveServerCfg{OutQueueSize: q})
	if err != nil {
		inconclusive("cannot start servers: " + err.Error())
		return
	}
	defer ln.close()
	sub, err := ln.join(subSer, 0, nil)
	if err != nil {
		inconclusive("subscriber cannot join: " + err.Error())
		return
	}
	defer sub.close()
	pub, err := ln.join(pubSer, 0, nil)
	if err != nil {
		inconclusive("publisher cannot join: " + err.Error())
		return
	}
	defer pub.close()
	if sub.send(&wamp.Subscribe{Request: 1, Options: wamp.Dict{}, Topic: "hot"}) != nil || sub.waitFor(hasReply(1)) != nil {
		inconclusive("subscribe not answered")
		return
	}
	sub.stall()
	payload := strings.Repeat("x", msgSize)
	for i := 1; i <= n; i++ {
		if err := pub.send(&wamp.Publish{Request: wamp.ID(i), Options: wamp.Dict{"acknowledge": true}, Topic: "hot", Arguments: wamp.List{i, payload}}); err != nil {
			inconclusive(fmt.Sprintf("publisher could not send publication %d: %v", i, err))
			return
		}
		if err := pub.waitFor(hasReply(wamp.ID(i))); err != nil {
			if errors.Is(err, errLiveWatchdog) {
				// The deciding observation of "others are not blocked" in real time is an absence; only counted.
				c.Add("live_ack_watchdogs", 1)
				inconclusive(fmt.Sprintf("publication %d of %d not acknowledged within %v while a subscriber was stalled", i, n, liveWatchdog))
				return
			}
			c.Fail("LV2", "publisher disconnected while a subscriber was stalled", "the publisher's transport ended after %d of %d acknowledged publications (a stalled subscriber on a %s server with OutQueueSize=%d): %v", i-1, n, kind, q, err)
			return
		}
	}
	// everything the router was going to keep for the subscriber is now queued or dropped: read again,
	// and publish small markers until one comes through
	sub.resume()
	marker := 0
	seen := func(l []wamp.Message) bool {
		for _, m := range l {
			if ev, ok := m.(*wamp.Event); ok && len(ev.Arguments) == 1 {
				return true
			}
		}
		return false
	}
	for {
		marker++
		req := wamp.ID(n + marker)
		if pub.send(&wamp.Publish{Request: req, Options: wamp.Dict{"acknowledge": true}, Topic: "hot", Arguments: wamp.List{"marker"}}) != nil || pub.waitFor(hasReply(req)) != nil {
			inconclusive("marker publication not acknowledged")
			return
		}
		if seen(sub.snapshot()) {
			break
		}
		if marker > 20000 {
			inconclusive("marker never came through")
			return
		}
		if marker%50 == 0 {
			time.Sleep(time.Millisecond)
		}
	}
	kept, last, order, dup := 0, 0, true, false
	for _, m := range sub.snapshot() {
		ev, ok := m.(*wamp.Event)
		if !ok || len(ev.Arguments) != 2 {
			continue
		}
		k, _ := canon.AsID(ev.Arguments[0])
		kept++
		if int(k) == last {
			dup = true
		}
		if int(k) < last {
			order = false
		}
		last = int(k)
	}
	c.Hit("LV1")
	c.Hit("LV2")
	c.Add("live_events_kept_for_stalled", float64(kept))
	kernel := 0
	if strings.HasSuffix(kind, "-unix") {
		kernel = (256<<10)/msgSize + 2 // net.core.wmem_default is 208 KiB here; a unix stream has no separate receive buffer
	} else {
		kernel = (12<<20)/msgSize + 2 // tcp_wmem max + tcp_rmem max
	}
	bound := effQ + 4 + kernel // + the writer's, the client transport's and the reader's message in hand
	if bound < n {
		if kept > bound {
			c.Fail("LV1", "more messages kept for a stalled client than the configured queue allows", "%s server with OutQueueSize=%d: a subscriber that had stopped reading received %d of %d events of %d KiB after resuming; "+
				"the configured queue, the writer's and reader's message in hand and the socket buffers account for at most %d", kind, q, kept, n, msgSize>>10, bound)
		}
	}
	if kept == 0 {
		c.Fail("LV1", "nothing delivered to a slow client", "%s server with OutQueueSize=%d: the subscriber received none of the %d events published while it was not reading", kind, q, n)
	}
	if !order || dup {
		c.Fail("LV3", "events for a slow client out of order or duplicated", "%s server: event numbers received after resuming are not strictly increasing", kind)
	}
	c.NT = kept > 0 && kept < n
	c.Sample = map[string]any{"workload": "live stalled subscriber", "server": kind, "OutQueueSize": q, "published": n, "kept_for_stalled": kept, "bound": bound, "markers": marker}
}

// liveSerializer returns the serializer object for computing wire sizes.
func liveSerializer(s serialize.Serialization) serialize.Serializer {
	switch s {
	case serialize.MSGPACK:
		return &serialize.MessagePackSerializer{}
	case serialize.CBOR:
		return &serialize.CBORSerializer{}
	}
	return &serialize.JSONSerializer{}
}

// livePayload is a deterministic pseudo-random printable string of length n keyed by k.
func livePayload(k, n int) string {
	b := make([]byte, n)
	x := uint32(k*2654435761 + 12345)
	for i := range b {
		x = x*1664525 + 1013904223
		b[i] = 'a' + byte((x>>24)%26)
	}
	return string(b)
}

// sizedPublish builds a PUBLISH whose serialized size is exactly target bytes (payload adjusted).
func sizedPublish(ser serialize.Serializer, req wamp.ID, topic string, seq, target int) (*wamp.Publish, int) {
	mk := func(n int) *wamp.Publish {
		return &wamp.Publish{Request: req, Options: wamp.Dict{"acknowledge": true}, Topic: wamp.URI(topic), Arguments: wamp.List{seq, livePayload(seq, n)}}
	}
	n := target - 80
	if n < 0 {
		n = 0
	}
	for tries := 0; tries < 400; tries++ {
		b, err := ser.Serialize(mk(n))
		if err != nil {
			break
		}
		switch {
		case len(b) == target:
			return mk(n), len(b)
		case len(b) < target:
			n += target - len(b)
		default:
			n -= len(b) - target
			if n < 0 {
				n = 0
			}
		}
	}
	m := mk(n)
	b, _ := ser.Serialize(m)
	return m, len(b)
}

// runC15Live: the real servers and the project's client transports carry
// messages of sizes around the negotiated limits in both directions; what is
// accepted arrives intact (content compared) and in order, what exceeds the
// receiver's announced limit is dropped as a whole, the messages that follow
// are unaffected and the connections stay up.
func runC15Live(c *Case) {
	r := c.Rng
	kind := pick(r, []string{"raw-unix", "raw-tcp", "raw-unix", "ws-unix", "ws-tcp"})
	isRaw := strings.HasPrefix(kind, "raw")
	srvLimit := pick(r, []int{0, 4096, 5000, 65536, 1 << 20})
	cliLimit := pick(r, []int{0, 2048, 3000, 65536})
	effSrv, effCli := 16<<20, 16<<20
	if srvLimit > 0 {
		effSrv = lenOfNibble(nibbleFor(srvLimit))
	}
	if cliLimit > 0 {
		effCli = lenOfNibble(nibbleFor(cliLimit))
	}
	serA, serB := pick(r, liveSers), pick(r, liveSers)
	c.Key = fmt.Sprintf("live kind=%s srv=%d cli=%d serA=%v serB=%v seed=%d", kind, srvLimit, cliLimit, serA, serB, c.Index)
	inconclusive := func(why string) {
		c.Add("live_cases_inconclusive", 1)
		c.Tracef("live case inconclusive: %s", why)
		c.Sample = map[string]any{"workload": "live", "inconclusive": why}
	}
	ln, err := newLiveNet(kind, &router.RealmConfig{URI: "realm1", AnonymousAuth: true}, liveServerCfg{RecvLimit: srvLimit})
	if err != nil {
		inconclusive("cannot start servers: " + err.Error())
		return
	}
	defer ln.close()
	a, err := ln.join(serA, cliLimit, nil) // the session with the small receive limit
	if err != nil {
		inconclusive("A cannot join: " + err.Error())
		return
	}
	defer a.close()
	b, err := ln.join(serB, 0, nil)
	if err != nil {
		inconclusive("B cannot join: " + err.Error())
		return
	}
	defer b.close()
	if a.send(&wamp.Subscribe{Request: 1, Options: wamp.Dict{}, Topic: "to.a"}) != nil || a.waitFor(hasReply(1)) != nil ||
		b.send(&wamp.Subscribe{Request: 1, Options: wamp.Dict{}, Topic: "to.b"}) != nil || b.waitFor(hasReply(1)) != nil {
		inconclusive("subscribe not answered")
		return
	}
	// a third session uses the client library itself (client.ConnectNet) and receives what B receives
	rc, err := ln.realClient(pick(r, liveSers))
	if err != nil {
		inconclusive("client.ConnectNet failed: " + err.Error())
		return
	}
	defer rc.Close()
	var rcMu sync.Mutex
	var rcGot []wamp.Message
	if err := rc.Subscribe("to.b", func(ev *wamp.Event) {
		rcMu.Lock()
		rcGot = append(rcGot, ev)
		rcMu.Unlock()
	}, nil); err != nil {
		inconclusive("client.Subscribe failed: " + err.Error())
		return
	}
	type sent struct {
		seq, wire int
		fits     bool
		payload  string
	}
	var aToB, bToA []sent
	req := wamp.ID(10)
	seq := 0
	sa, sb := liveSerializer(serA), liveSerializer(serB)
	// ---- A -> router (limit: what the server announced), observed by B
	targets := []int{200, 1000}
	if isRaw && effSrv <= 1<<20 {
		targets = append(targets, effSrv-1, effSrv, effSrv+1, effSrv+500, 300)
	} else {
		targets = append(targets, 70000, 1<<20, 300)
	}
	for _, t := range targets {
		seq++
		req++
		m, wire := sizedPublish(sa, req, "to.b", seq, t)
		fits := !isRaw || wire <= effSrv
		aToB = append(aToB, sent{seq, wire, fits, m.Arguments[1].(string)})
		if a.send(m) != nil {
			inconclusive("A cannot send")
			return
		}
		if fits {
			if err := a.waitFor(hasReply(req)); err != nil {
				if errors.Is(err, errLiveWatchdog) {
					inconclusive("publication not acknowledged")
					return
				}
				c.Fail("LV4", "connection lost on a message within the announced limit", "%s: A's PUBLISH of %d bytes on the wire (server limit %d) ended its connection: %v", kind, wire, effSrv, err)
				return
			}
		}
	}
	// ---- B -> A through the router (limit: what A announced). The EVENT is a little larger or smaller than
	// the PUBLISH (ids), so sizes keep 64 bytes of distance from A's limit.
	targets = []int{200, 1000}
	if isRaw && effCli <= 1<<20 {
		targets = append(targets, effCli-200, effCli+200, 300, effCli+5000, 400)
	} else {
		targets = append(targets, 70000, 1<<20, 300)
	}
	for _, t := range targets {
		seq++
		req++
		m, wire := sizedPublish(sb, req, "to.a", seq, t)
		// B's own frame must fit the server's limit
		if isRaw && wire > effSrv {
			continue
		}
		evWire := wire // about; decided with margin below
		fits := !isRaw || evWire+64 <= effCli
		over := isRaw && evWire-64 > effCli
		if !fits && !over {
			continue
		}
		bToA = append(bToA, sent{seq, wire, fits, m.Arguments[1].(string)})
		if b.send(m) != nil || b.waitFor(hasReply(req)) != nil {
			inconclusive("B's publication not acknowledged")
			return
		}
	}
	// closing markers in both directions (closed loop: everything before them has been routed)
	seq++
	req++
	endSeq := seq
	if a.send(&wamp.Publish{Request: req, Options: wamp.Dict{"acknowledge": true}, Topic: "to.b", Arguments: wamp.List{endSeq, "end"}}) != nil || a.waitFor(hasReply(req)) != nil {
		c.Fail("LV4", "sender unusable after an oversize message", "%s: after sending frames above the server's limit (%d), A's next small PUBLISH was not acknowledged", kind, effSrv)
		return
	}
	req++
	if b.send(&wamp.Publish{Request: req, Options: wamp.Dict{"acknowledge": true}, Topic: "to.a", Arguments: wamp.List{endSeq, "end"}}) != nil || b.waitFor(hasReply(req)) != nil {
		inconclusive("B's end marker not acknowledged")
		return
	}
	sawEnd := func(l []wamp.Message) bool {
		for _, m := range l {
			if ev, ok := m.(*wamp.Event); ok && len(ev.Arguments) == 2 {
				if s, _ := canon.AsStr(ev.Arguments[1]); s == "end" {
					return true
				}
			}
		}
		return false
	}
	if err := b.waitFor(sawEnd); err != nil {
		if errors.Is(err, errLiveWatchdog) {
			inconclusive("end marker did not reach B")
		} else {
			c.Fail("LV4", "receiver disconnected", "%s: B's connection ended before the end marker: %v", kind, err)
		}
		return
	}
	if err := a.waitFor(sawEnd); err != nil {
		if errors.Is(err, errLiveWatchdog) {
			inconclusive("end marker did not reach A")
		} else {
			c.Fail("LV4", "connection lost after a message above the client's announced limit", "%s: A (announced receive limit %d) lost its connection instead of just not being sent the oversize EVENT: %v", kind, effCli, err)
		}
		return
	}
	check := func(who string, got []wamp.Message, want []sent, limit int) {
		idx := 0
		var exp []sent
		for _, s := range want {
			if s.fits {
				exp = append(exp, s)
			}
		}
		for _, m := range got {
			ev, ok := m.(*wamp.Event)
			if !ok || len(ev.Arguments) != 2 {
				continue
			}
			k, _ := canon.AsID(ev.Arguments[0])
			p, _ := canon.AsStr(ev.Arguments[1])
			if p == "end" {
				continue
			}
			c.Hit("LV5")
			if idx >= len(exp) || int(k) != exp[idx].seq {
				wantSeq := -1
				if idx < len(exp) {
					wantSeq = exp[idx].seq
				}
				c.Fail("LV5", "message lost, reordered, or delivered above the receiver's limit", "%s: %s received event %d where %d was expected (limit %d; sent: %v)", kind, who, k, wantSeq, limit, sentSummary(want))
				return
			}
			if p != exp[idx].payload {
				c.Fail("LV5", "payload altered in transit", "%s: %s received event %d (%d bytes on the wire) with a payload different from what was published", kind, who, k, exp[idx].wire)
				return
			}
			idx++
		}
		if idx != len(exp) {
			c.Fail("LV5", "message within the limits not delivered", "%s: %s received %d of the %d events that fit the negotiated limits (limit %d; sent: %v)", kind, who, idx, len(exp), limit, sentSummary(want))
		}
	}
	check("B", b.snapshot(), aToB, effSrv)
	check("A", a.snapshot(), bToA, effCli)
	// the client library's subscriber: wait (closed loop) for the end marker, then the same comparison
	rcEnd := func() bool {
		rcMu.Lock()
		defer rcMu.Unlock()
		return sawEnd(rcGot)
	}
	for i := 0; i < 9000 && !rcEnd(); i++ {
		time.Sleep(10 * time.Millisecond)
	}
	if !rcEnd() {
		inconclusive("end marker did not reach the client library's subscriber")
		return
	}
	rcMu.Lock()
	got := append([]wamp.Message(nil), rcGot...)
	rcMu.Unlock()
	check("client.Client subscriber", got, aToB, effSrv)
	c.Hit("LV4")
	c.NT = isRaw && (effSrv <= 1<<20 || effCli <= 1<<20)
	c.Sample = map[string]any{"workload": "live sizes", "server": kind, "server_recv_limit": srvLimit, "client_recv_limit": cliLimit, "a_to_b": sentSummary(aToB), "b_to_a": sentSummary(bToA)}
}

func sentSummary[T any](l []T) string { return fmt.Sprintf("%v", l) }
