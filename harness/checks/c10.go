package checks

import (
	"errors"
	"fmt"
	"hash/fnv"
	"strings"
	"time"

	"github.com/gammazero/nexus/v3/wamp"

	"verif/harness/model"
	"verif/harness/sim"
)

// C10 — a message is acted upon iff the Authorizer allowed it. Engine
// "bubble": generated authorizers are pure decision tables keyed by (message
// type, URI, authrole); the harness computes the decision for every scripted
// message itself. Denied messages must have no effect and be answered as
// documented; allowed (possibly rewritten) messages are checked against the
// same lock-step model that decides the router without an authorizer, so
// "behaves exactly as without" is the model equality of every other check.

const (
	azAllow = iota
	azDeny
	azFail
	azRewrite
	azTag
)

type authzTable struct {
	seed    uint64
	denyPct int
}

func (t *authzTable) action(mt wamp.MessageType, uri, role string) int {
	h := fnv.New64a()
	fmt.Fprintf(h, "%d|%d|%s|%s", t.seed, mt, uri, role)
	v := int(h.Sum64() % 100)
	switch {
	case v < t.denyPct:
		return azDeny
	case v < t.denyPct+8:
		return azFail
	case v < t.denyPct+16:
		return azRewrite
	case v < t.denyPct+20:
		return azTag
	}
	return azAllow
}

func rewriteURI(u string) string {
	switch u {
	case "a.b":
		return "a.b2"
	case "a.b.c":
		return "a.x.c"
	case "a":
		return "b"
	}
	return u + "_rw"
}

func msgURI(msg wamp.Message) (string, func(string)) {
	switch m := msg.(type) {
	case *wamp.Publish:
		return string(m.Topic), func(s string) { m.Topic = wamp.URI(s) }
	case *wamp.Subscribe:
		return string(m.Topic), func(s string) { m.Topic = wamp.URI(s) }
	case *wamp.Register:
		return string(m.Procedure), func(s string) { m.Procedure = wamp.URI(s) }
	case *wamp.Call:
		return string(m.Procedure), func(s string) { m.Procedure = wamp.URI(s) }
	}
	return "", func(string) {}
}

// Authorize implements router.Authorizer.
func (t *authzTable) Authorize(sess *wamp.Session, msg wamp.Message) (bool, error) {
	role, _ := wamp.AsString(sess.Details["authrole"])
	uri, set := msgURI(msg)
	switch t.action(msg.MessageType(), uri, role) {
	case azDeny:
		return false, nil
	case azFail:
		return false, errors.New("authorizer backend unavailable")
	case azRewrite:
		set(rewriteURI(uri))
	case azTag:
		sess.Details["team"] = "green"
	}
	return true, nil
}

func init() {
	register(&Prop{
		ID: "C10", Cases: rpcCases(1200, 20000), Batch: rpcBatch,
		Run: runC10,
		Rule: "each case: a generated Authorizer (pure decision table over message type x URI x authrole with allow / deny / fail / rewrite-URI / change-session-detail actions, deny rate 10-45%), " +
			"RequireLocalAuthz on or off, 3-6 sessions (local and remote, several authroles), 20-50 steps of SUBSCRIBE/UNSUBSCRIBE/PUBLISH(ack and not)/REGISTER/UNREGISTER/CALL/CANCEL/YIELD/ERROR/GOODBYE " +
			"and meta calls; the harness evaluates the same table: denied steps must draw exactly the documented ERROR and change nothing (every session's log, catch-all and meta observers), allowed and " +
			"rewritten steps are checked against the lock-step model of the authorizer-free router; non-trivial = script with >=1 denied, >=1 allowed and >=1 rewritten step of different types",
		Required: []string{"AZ1", "AZ2", "AZ3", "AZ4", "AZ5"},
		Level:    "exploration",
	})
}

func runC10(c *Case) {
	g := newScriptGen(c)
	r := c.Rng
	tbl := &authzTable{seed: r.Uint64(), denyPct: 10 + r.IntN(36)}
	localAuthz := chance(r, 40)
	localAuth := chance(r, 35)
	realm := RealmSetup{RealmSpec: model.RealmSpec{Name: "realm1", AllowDisclose: chance(r, 50), MetaKill: true}, Authorizer: tbl, RequireLocalAuthz: localAuthz, RequireLocalAuth: localAuth}
	var setups []PuppetSetup
	var script []string
	kinds := map[string]map[int]bool{}
	panicText := c.Bubble(func() {
		run, err := NewRunner(c, []RealmSetup{realm}, nil)
		if err != nil {
			c.Fail("HARNESS", "world", "cannot create world: %v", err)
			return
		}
		run.Mon.TrackMeta = true
		// observer: local and (when local sessions are subject too) an authrole the
		// table may deny: its own subscriptions are made through exec as well
		n := 3 + r.IntN(4)
		for i := 0; i < n; i++ {
			ps := randomPuppet(r, realm.Name, 60)
			if i == 0 {
				ps.Kind = sim.Local
			}
			ps.Features = nil
			if localAuth && ps.Kind == sim.Local {
				ps.LocalAuth = true
				if ps.AuthID == "" {
					ps.AuthID = pick(r, authIDs)
				}
			}
			setups = append(setups, ps)
			run.Join(ps)
		}
		note := func(kind string, act int) {
			if kinds[kind] == nil {
				kinds[kind] = map[int]bool{}
			}
			kinds[kind][act] = true
		}
		// exec evaluates the table like the router will and tells the monitor what must happen
		exec := func(op model.Op) {
			s := run.Mon.Sess[op.P]
			if s == nil || !s.Alive {
				return
			}
			subject := !s.Local || localAuthz
			var mt wamp.MessageType
			switch op.Kind {
			case model.OpPublish:
				mt = wamp.PUBLISH
			case model.OpSubscribe:
				mt = wamp.SUBSCRIBE
			case model.OpUnsubscribe:
				mt = wamp.UNSUBSCRIBE
			case model.OpRegister:
				mt = wamp.REGISTER
			case model.OpUnregister:
				mt = wamp.UNREGISTER
			case model.OpCall, model.OpMetaCall:
				mt = wamp.CALL
			case model.OpCancel:
				mt = wamp.CANCEL
			case model.OpYield:
				mt = wamp.YIELD
			case model.OpInvError:
				mt = wamp.ERROR
			case model.OpLeave:
				mt = wamp.GOODBYE
			}
			uri, hasURI := "", false
			switch op.Kind {
			case model.OpPublish, model.OpSubscribe, model.OpRegister, model.OpCall, model.OpMetaCall:
				uri, hasURI = op.URI, true
			}
			act := azAllow
			if subject && mt != 0 && !(op.Kind == model.OpLeave && op.How != model.LeaveGoodbye) {
				act = tbl.action(mt, uri, s.AuthRole)
			}
			if !subject {
				c.Hit("AZ5")
			}
			script = append(script, fmt.Sprintf("%v => %s", op, []string{"allow", "DENY", "FAIL", "REWRITE", "TAG"}[act]))
			note(op.Kind.String(), act)
			c.Tracef("[%d] %v  authorizer: %s", run.Steps, op, []string{"allow", "deny", "fail", "rewrite", "tag"}[act])
			switch act {
			case azDeny, azFail:
				msg := run.Mon.Build(op)
				run.Steps++
				if op.Kind == model.OpLeave && op.How == model.LeaveDrop {
					return
				}
				run.W.Puppets[op.P].Send(msg)
				run.W.Wait()
				obs := run.collect()
				run.traceObs(obs)
				run.Mon.ObserveDenied(op, act == azFail, obs)
				return
			case azRewrite:
				// the router acts on the rewritten message: send the original, judge the rewritten
				orig := op
				msg := run.Mon.Build(orig)
				run.Steps++
				run.W.Puppets[op.P].Send(msg)
				run.W.Wait()
				obs := run.collect()
				run.traceObs(obs)
				rw := op
				if hasURI {
					rw.URI = rewriteURI(uri)
					if rw.Kind == model.OpMetaCall {
						rw.Kind = model.OpCall // a rewritten meta call is an ordinary call to the new URI
					}
				}
				run.Mon.Build(rw)
				c.Hit("AZ4")
				run.Mon.Observe(rw, obs)
				return
			case azTag:
				run.Mon.SetAttr(op.P, "team", "green")
			}
			c.Hit("AZ4")
			run.Exec(op)
		}
		exec(model.Op{Kind: model.OpSubscribe, P: 0, Req: g.nextReq(0), URI: "", Opts: matchOpts("prefix")})
		type sk struct{ uri, pol string }
		var held, procs []sk
		nSteps := 20 + r.IntN(31)
		for step := 0; step < nSteps; step++ {
			al := run.Mon.AliveSessions()
			if len(al) < 2 {
				break
			}
			p := pick(r, al)
			switch x := r.IntN(100); {
			case x < 15:
				uri, m := g.topicAndMatch(5)
				exec(model.Op{Kind: model.OpSubscribe, P: p, Req: g.nextReq(p), URI: uri, Opts: matchOpts(m)})
				held = append(held, sk{uri, model.NormMatch(m)})
			case x < 21 && len(held) > 0:
				h := pick(r, held)
				exec(model.Op{Kind: model.OpUnsubscribe, P: p, Req: g.nextReq(p), Target: model.Ref{Kind: "sub", Topic: h.uri, Match: h.pol}})
			case x < 42:
				args, kw := g.payload()
				exec(model.Op{Kind: model.OpPublish, P: p, Req: g.nextReq(p), URI: pick(r, poolTopics), Opts: genPublishOpts(g, len(run.W.Puppets), realm.AllowDisclose), Args: args, Kw: kw})
			case x < 54:
				uri := pick(r, procPool)
				opts := map[string]any{}
				if inv := pick(r, []string{"", "first", "roundrobin"}); inv != "" {
					opts["invoke"] = inv
				}
				exec(model.Op{Kind: model.OpRegister, P: p, Req: g.nextReq(p), URI: uri, Opts: opts})
				procs = append(procs, sk{uri, model.Exact})
			case x < 59 && len(procs) > 0:
				h := pick(r, procs)
				exec(model.Op{Kind: model.OpUnregister, P: p, Req: g.nextReq(p), Target: model.Ref{Kind: "reg", Topic: h.uri, Match: h.pol}})
			case x < 72:
				args, kw := g.payload()
				opts := map[string]any{}
				if chance(r, 25) {
					opts["timeout"] = 3000
				}
				exec(model.Op{Kind: model.OpCall, P: p, Req: g.nextReq(p), URI: pick(r, procPool), Opts: opts, Args: args, Kw: kw})
			case x < 82:
				pend := run.Mon.PendingCalls()
				if len(pend) == 0 {
					continue
				}
				pc := pick(r, pend)
				if pc.Abandoned {
					continue
				}
				args, kw := g.payload()
				if chance(r, 75) {
					exec(model.Op{Kind: model.OpYield, P: pc.Callee, Target: model.Ref{Kind: "inv", P: pc.Caller, Req: pc.Req}, Opts: map[string]any{}, Args: args, Kw: kw})
				} else {
					exec(model.Op{Kind: model.OpInvError, P: pc.Callee, Target: model.Ref{Kind: "inv", P: pc.Caller, Req: pc.Req}, ErrURI: "com.myapp.error", Args: args, Kw: kw})
				}
			case x < 87:
				pend := run.Mon.PendingCalls()
				if len(pend) == 0 {
					continue
				}
				pc := pick(r, pend)
				exec(model.Op{Kind: model.OpCancel, P: pc.Caller, Req: pc.Req, Opts: map[string]any{"mode": pick(r, []string{"skip", "kill", "killnowait"})}})
			case x < 93:
				exec(model.Op{Kind: model.OpMetaCall, P: p, Req: g.nextReq(p), URI: pick(r, []string{"wamp.session.count", "wamp.session.list", "wamp.subscription.list"})})
			case x < 96:
				if p != 0 {
					exec(model.Op{Kind: model.OpLeave, P: p, How: pick(r, []string{model.LeaveGoodbye, model.LeaveGoodbye, model.LeaveDrop})})
				}
			default:
				run.Exec(model.Op{Kind: model.OpAdvance, D: time.Second})
			}
		}
		run.Exec(model.Op{Kind: model.OpAdvance, D: time.Hour})
		denied, allowed, rewritten := map[string]bool{}, map[string]bool{}, map[string]bool{}
		for k, acts := range kinds {
			if acts[azDeny] || acts[azFail] {
				denied[k] = true
			}
			if acts[azAllow] {
				allowed[k] = true
			}
			if acts[azRewrite] {
				rewritten[k] = true
			}
		}
		c.NT = len(denied) > 0 && len(allowed) > 0 && len(rewritten) > 0 && len(kinds) >= 3
		c.Add("steps", float64(run.Steps))
		run.Finish()
	})
	if panicText != "" {
		c.Fail("RB1", "bubble panic: "+firstLine(panicText), "%s", panicText)
	}
	var sb strings.Builder
	for _, ps := range setups {
		sb.WriteString(ps.String() + ";")
	}
	c.Key = fmt.Sprintf("tbl=%d/%d localauthz=%v localauth=%v|%s|%s", tbl.seed, tbl.denyPct, localAuthz, localAuth, sb.String(), strings.Join(script, "\n"))
	if c.Index < 3 || len(c.Viol) > 0 {
		c.Sample = map[string]any{"authorizer": fmt.Sprintf("decision table seed=%d deny=%d%% fail=8%% rewrite=8%% tag=4%%", tbl.seed, tbl.denyPct),
			"require_local_authz": localAuthz, "require_local_auth": localAuth, "sessions": puppetStrings(setups), "script": clip(script, 70)}
	}
}
