package checks

import (
	"fmt"
	"strings"
	"testing/synctest"
	"time"

	"github.com/gammazero/nexus/v3/client"
	"github.com/gammazero/nexus/v3/transport"
	"github.com/gammazero/nexus/v3/wamp"

	"verif/harness/sim"
)

// runC17Join is the second workload of C17 (every 6th case): the hostile
// router misbehaves while the client is still joining. client.NewClient must
// return (a client, or an error) within the response timeouts it is entitled
// to, never panic, and leave nothing behind when it fails.
func runC17Join(c *Case) {
	r := c.Rng
	tmo := pick(r, []time.Duration{100 * time.Millisecond, time.Second})
	withAuth := chance(r, 60)
	first := pick(r, []string{"nothing", "abort", "goodbye", "garbage", "welcome-noroles", "welcome-hostile", "challenge", "challenge-unknown", "drop", "welcome"})
	second := pick(r, []string{"welcome", "abort", "abort-hostile", "garbage", "nothing", "drop", "challenge"})
	delay := pick(r, []time.Duration{0, tmo - time.Millisecond, tmo, tmo + time.Millisecond})
	var script []string
	panicText := c.Bubble(func() {
		cliPeer, rtrPeer := transport.LinkedPeersQSize(pick(r, []int{0, 1}))
		log := sim.NewLogBuf(100)
		rtr := &scriptedRouter{peer: rtrPeer, start: time.Now(), quit: make(chan struct{}), deaf: make(chan struct{}), pauseSig: make(chan struct{}, 1), sendMu: make(chan struct{}, 1)}
		go rtr.reader()
		cfg := client.Config{Realm: "realm1", ResponseTimeout: tmo, Logger: log}
		if withAuth {
			cfg.AuthHandlers = map[string]client.AuthFunc{"ticket": func(ch *wamp.Challenge) (string, wamp.Dict) { return "secret", wamp.Dict{} }}
		}
		var cli *client.Client
		var cerr error
		returned := false
		var retAt time.Duration
		start := time.Now()
		go func() {
			cli, cerr = client.NewClient(cliPeer, cfg)
			retAt = time.Since(start)
			returned = true
		}()
		synctest.Wait()
		reply := func(kind string) {
			script = append(script, "router: "+kind)
			var m wamp.Message
			switch kind {
			case "nothing":
				return
			case "drop":
				rtr.Drop()
				return
			case "abort":
				m = &wamp.Abort{Details: wamp.Dict{"message": "no"}, Reason: "wamp.error.no_such_realm"}
			case "abort-hostile":
				m = &wamp.Abort{Details: wamp.Dict{"message": hostileValue(r, 0)}, Reason: wamp.URI(pick(r, hostileStrings))}
			case "goodbye":
				m = &wamp.Goodbye{Details: wamp.Dict{}, Reason: "wamp.close.system_shutdown"}
			case "garbage":
				m = c17Template(r, pick(r, []wamp.MessageType{wamp.EVENT, wamp.RESULT, wamp.INVOCATION, wamp.HELLO, wamp.REGISTERED, wamp.ERROR}), nil, nil, new(uint64))
				corrupt(r, m)
			case "welcome":
				m = routerWelcome(true)
			case "welcome-noroles":
				m = &wamp.Welcome{ID: 7, Details: wamp.Dict{"roles": pick(r, []any{nil, wamp.Dict{}, "x", wamp.List{}, wamp.Dict{"broker": 5}})}}
			case "welcome-hostile":
				w := routerWelcome(true)
				w.ID = wamp.ID(pick(r, []uint64{0, 1 << 53, 1<<63 + 1}))
				for k := 0; k < 3; k++ {
					w.Details[pick(r, optionKeys)] = hostileValue(r, 0)
				}
				m = w
			case "challenge":
				m = &wamp.Challenge{AuthMethod: "ticket", Extra: wamp.Dict{"x": hostileValue(r, 0)}}
			case "challenge-unknown":
				m = &wamp.Challenge{AuthMethod: pick(r, hostileStrings), Extra: nil}
			}
			rtr.Send(m)
		}
		if delay > 0 {
			time.Sleep(delay)
		}
		reply(first)
		synctest.Wait()
		if !returned {
			// the client may be waiting for the answer to its AUTHENTICATE (or still for WELCOME)
			if delay > 0 {
				time.Sleep(delay)
			}
			reply(second)
			synctest.Wait()
		}
		time.Sleep(3 * tmo)
		synctest.Wait()
		c.Hit("CH6")
		if !returned {
			c.Fail("CH6", "NewClient does not return", "router answered HELLO with %q after %v (then %q): client.NewClient has not returned %v later (response timeout %v)\n%s", first, delay, second, time.Since(start), tmo, clientStacks())
			rtr.Drop()
			synctest.Wait()
		} else if retAt > 2*delay+2*tmo+5*time.Millisecond {
			c.Fail("CH6", "NewClient overstays its response timeouts", "router answered HELLO with %q after %v (then %q): NewClient returned after %v with response timeout %v", first, delay, second, retAt, tmo)
		}
		if cli != nil && cerr == nil {
			script = append(script, "joined")
			closed := false
			go func() { _ = cli.Close(); closed = true }()
			synctest.Wait()
			for _, m := range rtr.Take() {
				if _, ok := m.Msg.(*wamp.Goodbye); ok {
					rtr.Send(&wamp.Goodbye{Details: wamp.Dict{}, Reason: "wamp.close.goodbye_and_out"})
				}
			}
			time.Sleep(5 * tmo)
			synctest.Wait()
			c.Hit("CL12")
			if !closed {
				c.Fail("CL12", "client Close does not return", "after a join answered with %q/%q Close() is still blocked\n%s", first, second, clientStacks())
				rtr.Drop()
			}
		} else if returned {
			script = append(script, "join failed: "+firstLine(fmt.Sprint(cerr)))
			c.Hit("CH7")
			if !rtr.ClientClosed() {
				c.Fail("CH7", "failed join leaves the transport open", "NewClient returned %v but did not close the peer it was given", cerr)
			}
		}
		rtr.Quit()
		time.Sleep(time.Hour)
		synctest.Wait()
		c.Hit("CL13")
		for _, g := range sim.Leaked() {
			c.Fail("CL13", "client goroutine left after a join attempt: "+leakSig(g), "goroutine with nexus frames alive one virtual hour later (HELLO answered with %q, then %q):\n%s", first, second, g)
		}
	})
	if panicText != "" {
		c.Fail("CH1", "bubble panic: "+firstLine(panicText), "%s", panicText)
	}
	c.NT = first != "welcome"
	c.Key = fmt.Sprintf("join tmo=%v auth=%v first=%s second=%s delay=%v|%s", tmo, withAuth, first, second, delay, strings.Join(script, ";"))
	if c.Index < 12 || len(c.Viol) > 0 {
		c.Sample = map[string]any{"workload": "hostile router during the join", "response_timeout": tmo.String(), "client_offers_ticket_auth": withAuth, "first_answer": first, "second_answer": second, "delay": delay.String(), "script": script}
	}
}
