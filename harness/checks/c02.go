package checks

// C02 — every routed CALL gets exactly one final RESULT or ERROR.
// C03 — calls reach the right callee with payload and ids intact.
// C13 — CANCEL modes and call timeouts behave as documented.
// All three use the lock-step RPC reference model (harness/model/rpc.go) with
// differently weighted script generators.

func rpcCases(q, t int) func(string) int {
	return func(tier string) int {
		if tier == "thorough" {
			return t
		}
		return q
	}
}

func rpcBatch(tier string) int {
	if tier == "thorough" {
		return 500
	}
	return 100
}

func runRPCProp(c *Case, w rpcWeights, nt func(rr *rpcRun) bool) {
	var rr *rpcRun
	panicText := c.Bubble(func() {
		rr = runRPCScript(c, w, false)
		if rr.run != nil {
			c.NT = nt(rr)
			rr.run.Finish()
		}
	})
	if panicText != "" {
		c.Fail("RB1", "bubble panic: "+firstLine(panicText), "%s", panicText)
	}
	if rr != nil {
		c.Key = rr.key()
		if c.Index < 3 || len(c.Viol) > 0 {
			c.Sample = rr.sample()
		}
	}
}

func init() {
	register(&Prop{
		ID: "C02", Cases: rpcCases(1600, 24000), Batch: rpcBatch,
		Run: func(c *Case) {
			runRPCProp(c, rpcWeights{register: 14, unregister: 3, call: 26, yield: 20, inverr: 8, cancel: 12, advance: 6, leave: 6, join: 2, foreign: 3,
				progInv: 10, timeoutPct: 30, progPct: 30},
				func(rr *rpcRun) bool { return rr.run.Mon.NonHappyCloses > 0 })
		},
		Rule: "generated RPC scripts (3-7 sessions with random feature sets over all transports; REGISTER with every policy, CALL with timeout/receive_progress/progress, " +
			"YIELD/ERROR by owner, non-owner, duplicate, late, CANCEL in every mode by owner/other/repeat, timer expiry, departures and meta kills) in lock-step against the per-call " +
			"reply automaton + RPC model, clock finally advanced 3 h; non-trivial = >=1 call was closed by a non-happy trigger (cancel, timeout, departure, routing error)",
		Required: []string{"RP9", "RP10", "RP13", "RP14", "RP15", "RP16", "RP17", "RP19", "CN1", "CN2", "CN3", "TO1"},
		Level:    "exploration",
	})
	register(&Prop{
		ID: "C03", Cases: rpcCases(1600, 24000), Batch: rpcBatch,
		Run: func(c *Case) {
			runRPCProp(c, rpcWeights{register: 26, unregister: 8, call: 34, yield: 14, inverr: 4, cancel: 2, advance: 1, leave: 5, join: 3, foreign: 3,
				progInv: 15, timeoutPct: 5, progPct: 30, hotPct: 45},
				func(rr *rpcRun) bool { return rr.run.Mon.Overlaps > 0 })
		},
		Rule: "generated scripts of overlapping exact/prefix/wildcard registrations under all five invocation policies, repeated and conflicting REGISTERs, UNREGISTER own/foreign/unknown, " +
			"CALLs (incl. progressive chunks), answers from owners and non-owners, departures; lock-step against the routing model (best match, policy incl. round-robin window rule, ids, payload, flags); " +
			"non-trivial = >=1 call was resolved among >=2 overlapping registrations or a shared registration with >=2 members",
		Required: []string{"RP1", "RP2", "RP3", "RP4", "RP5", "RP6", "RP7", "RP8", "RP9", "RP10", "RP11", "RP12", "RP13", "RP16"},
		Level:    "exploration",
	})
	register(&Prop{
		ID: "C13", Cases: rpcCases(1600, 24000), Batch: rpcBatch,
		Run: func(c *Case) {
			runRPCProp(c, rpcWeights{register: 12, unregister: 1, call: 26, yield: 14, inverr: 6, cancel: 20, advance: 14, leave: 3, join: 1, foreign: 3,
				progInv: 5, timeoutPct: 65, progPct: 25, exactTimes: true},
				func(rr *rpcRun) bool { return rr.cancelOrTO > 0 && (rr.lateAnswers > 0 || rr.foreignAnswer > 0) })
		},
		Rule: "generated scripts dominated by CANCEL (skip/kill/killnowait/absent/unknown mode; owner, foreign, repeated, finished, unknown) and call timeouts (1 ms .. 10^7 ms as int/int64/uint64/float) " +
			"against callees with every call_canceling x call_timeout x forward_timeout combination; the virtual clock is stopped 1 ms before each deadline and then exactly on it; " +
			"lock-step against the cancel/timeout state machine with exact virtual timestamps; non-trivial = a cancel or deadline occurred in a script that also had a late or foreign callee answer",
		Required: []string{"CN1", "CN2", "CN3", "CN4", "CN5", "CN6", "TO1", "TO3"},
		Level:    "exploration",
	})
}
