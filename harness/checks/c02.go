package checks

// C02 — every routed CALL gets exactly one final RESULT or ERROR.
// C03 — calls reach the right callee with payload and ids intact.
// C13 — CANCEL modes and call timeouts behave as documented.
// All three use the lock-step RPC reference model (harness/model/rpc.go) with
// differently weighted script generators.

import (
	"fmt"
	"time"

	"github.com/gammazero/nexus/v3/wamp"

	"verif/harness/canon"
	"verif/harness/sim"
)

func rpcCases(q, t int) func(string) int {
	return func(tier string) int {
		if tier == "thorough" {
			return t
		}
		return q
	}
}

func rpcBatch(tier string) int {
	if tier == "thorough" {
		return 500
	}
	return 100
}

func runRPCProp(c *Case, w rpcWeights, nt func(rr *rpcRun) bool) {
	var rr *rpcRun
	panicText := c.Bubble(func() {
		rr = runRPCScript(c, w, false)
		if rr.run != nil {
			c.NT = nt(rr)
			if c.Index%2 == 0 {
				blockedCallerEpilogue(c, rr.run.W, rr.realm.Name)
			} else {
				blockedCalleeEpilogue(c, rr.run.W, rr.realm.Name)
			}
			rr.run.Finish()
		}
	})
	if panicText != "" {
		c.Fail("RB1", "bubble panic: "+firstLine(panicText), "%s", panicText)
	}
	if rr != nil {
		c.Key = rr.key()
		if c.Index < 3 || len(c.Viol) > 0 {
			c.Sample = rr.sample()
		}
	}
}

func init() {
	register(&Prop{
		ID: "C02", Cases: rpcCases(1600, 24000), Batch: rpcBatch,
		Run: func(c *Case) {
			runRPCProp(c, rpcWeights{register: 14, unregister: 3, call: 26, yield: 20, inverr: 8, cancel: 12, advance: 6, leave: 6, join: 2, foreign: 3,
				progInv: 10, timeoutPct: 40, progPct: 30, hotPct: 30},
				func(rr *rpcRun) bool { return rr.run.Mon.NonHappyCloses > 0 })
		},
		Rule: "generated RPC scripts (3-7 sessions with random feature sets over all transports; REGISTER with every policy, CALL with timeout/receive_progress/progress, " +
			"YIELD/ERROR by owner, non-owner, duplicate, late, CANCEL in every mode by owner/other/repeat, timer expiry, departures and meta kills) in lock-step against the per-call " +
			"reply automaton + RPC model, clock finally advanced 3 h; every 2nd case ends with a caller whose queue (1-3) is full when the final YIELD is processed and which reads again 20 ms later (RP21: exactly one final RESULT, payload intact); non-trivial = >=1 call was closed by a non-happy trigger (cancel, timeout, departure, routing error)",
		Required: []string{"RP9", "RP10", "RP13", "RP14", "RP15", "RP16", "RP17", "RP19", "RP21", "CN1", "CN2", "CN3", "CN7", "TO1"},
		Level:    "exploration",
	})
	register(&Prop{
		ID: "C03", Cases: rpcCases(1600, 24000), Batch: rpcBatch,
		Run: func(c *Case) {
			runRPCProp(c, rpcWeights{register: 26, unregister: 8, call: 34, yield: 14, inverr: 4, cancel: 2, advance: 1, leave: 5, join: 3, foreign: 3,
				progInv: 15, timeoutPct: 5, progPct: 30, hotPct: 45},
				func(rr *rpcRun) bool { return rr.run.Mon.Overlaps > 0 })
		},
		Rule: "generated scripts of overlapping exact/prefix/wildcard registrations under all five invocation policies, repeated and conflicting REGISTERs, UNREGISTER own/foreign/unknown, " +
			"CALLs (incl. progressive chunks), answers from owners and non-owners, departures; lock-step against the routing model (best match, policy incl. round-robin window rule, ids, payload, flags); " +
			"non-trivial = >=1 call was resolved among >=2 overlapping registrations or a shared registration with >=2 members",
		Required: []string{"RP1", "RP2", "RP3", "RP4", "RP5", "RP6", "RP7", "RP8", "RP9", "RP10", "RP11", "RP12", "RP13", "RP16"},
		Level:    "exploration",
	})
	register(&Prop{
		ID: "C13", Cases: rpcCases(1600, 24000), Batch: rpcBatch,
		Run: func(c *Case) {
			runRPCProp(c, rpcWeights{register: 12, unregister: 1, call: 26, yield: 14, inverr: 6, cancel: 20, advance: 14, leave: 3, join: 1, foreign: 3,
				progInv: 5, timeoutPct: 65, progPct: 25, exactTimes: true},
				func(rr *rpcRun) bool { return rr.cancelOrTO > 0 && (rr.lateAnswers > 0 || rr.foreignAnswer > 0) })
		},
		Rule: "generated scripts dominated by CANCEL (skip/kill/killnowait/absent/unknown mode; owner, foreign, repeated, finished, unknown) and call timeouts (1 ms .. 10^7 ms as int/int64/uint64/float) " +
			"against callees with every call_canceling x call_timeout x forward_timeout combination; the virtual clock is stopped 1 ms before each deadline and then exactly on it; " +
			"lock-step against the cancel/timeout state machine with exact virtual timestamps; non-trivial = a cancel or deadline occurred in a script that also had a late or foreign callee answer",
		Required: []string{"CN1", "CN2", "CN3", "CN4", "CN5", "CN6", "TO1", "TO3"},
		Level:    "exploration",
	})
}


// blockedCallerEpilogue runs after the generated script, with two fresh
// in-process sessions: the caller's outbound queue is full at the moment the
// callee's final YIELD is processed, and the caller reads again 20 ms later,
// far within the period during which the dealer retries a blocked RESULT. The
// call must still end with that RESULT, payload intact.
func blockedCallerEpilogue(c *Case, w *sim.World, realm string) {
	q := 1 + c.Index/2%3
	callee := w.AddPuppet(sim.PuppetSpec{Kind: sim.Local})
	caller := w.AddPuppet(sim.PuppetSpec{Kind: sim.Local, QSize: q})
	callee.Join(realm, wamp.Dict{"roles": sim.AllFeatures()})
	caller.Join(realm, wamp.Dict{"roles": sim.AllFeatures()})
	if callee.SID == 0 || caller.SID == 0 {
		return // the realm does not admit plain local sessions
	}
	callee.Send(&wamp.Register{Request: 1, Options: wamp.Dict{}, Procedure: "zz.epilogue.proc"})
	w.Wait()
	caller.Send(&wamp.Call{Request: 7001, Options: wamp.Dict{"receive_progress": true}, Procedure: "zz.epilogue.proc", Arguments: wamp.List{"epilogue"}})
	w.Wait()
	var inv wamp.ID
	for _, o := range callee.Take() {
		if iv, ok := o.Msg.(*wamp.Invocation); ok {
			inv = iv.Request
		}
	}
	if inv == 0 {
		return
	}
	caller.Take()
	caller.Stall()
	for k := 0; k < q; k++ { // exactly fills the caller's queue: the final YIELD is the first to find it full
		callee.Send(&wamp.Yield{Request: inv, Options: wamp.Dict{"progress": true}, Arguments: wamp.List{"p", k}})
	}
	w.Wait()
	token := fmt.Sprintf("final-%d", c.Index)
	callee.Send(&wamp.Yield{Request: inv, Options: wamp.Dict{}, Arguments: wamp.List{token}})
	w.Wait()
	w.Advance(20 * time.Millisecond)
	caller.Resume()
	w.Advance(3 * time.Second)
	c.Hit("RP21")
	finals := 0
	var last string
	for _, o := range caller.Take() {
		switch m := o.Msg.(type) {
		case *wamp.Result:
			if m.Request == 7001 {
				if pr, _ := m.Details["progress"].(bool); !pr {
					finals++
					if len(m.Arguments) == 1 {
						last, _ = canon.AsStr(m.Arguments[0])
					}
				}
			}
		case *wamp.Error:
			if m.Request == 7001 {
				c.Fail("RP21", "blocked caller's call ended with an error", "the caller's queue (%d) was full when the final YIELD arrived and it read again 20 ms later; it got ERROR %s", q, m.Error)
				return
			}
		}
	}
	if finals != 1 || last != token {
		c.Fail("RP21", "final result lost for a caller that was blocked for 20 ms", "the caller's queue (%d) was full when the callee's final YIELD was processed; it read again 20 ms later (the dealer retries for a minute) and received %d final RESULTs for the call (payload %q, expected %q)", q, finals, last, token)
	}
}


// blockedCalleeEpilogue: a callee that announces call_canceling has an
// invocation pending and has stopped reading with a full queue when the caller
// sends CANCEL. In mode kill the INTERRUPT cannot be queued, so waiting for the
// callee's answer would never end: the documented behaviour is that the call
// is ended for the caller at once (as in skip), in every mode.
func blockedCalleeEpilogue(c *Case, w *sim.World, realm string) {
	mode := []string{"kill", "killnowait", "skip"}[c.Index/2%3]
	callee := w.AddPuppet(sim.PuppetSpec{Kind: sim.Local, QSize: 2})
	caller := w.AddPuppet(sim.PuppetSpec{Kind: sim.Local})
	filler := w.AddPuppet(sim.PuppetSpec{Kind: sim.Local})
	for _, p := range []*sim.Puppet{callee, caller, filler} {
		p.Join(realm, wamp.Dict{"roles": sim.AllFeatures()})
		if p.SID == 0 {
			return
		}
	}
	callee.Send(&wamp.Register{Request: 1, Options: wamp.Dict{}, Procedure: "zz.epilogue.slow"})
	callee.Send(&wamp.Subscribe{Request: 2, Options: wamp.Dict{}, Topic: "zz.epilogue.fill"})
	w.Wait()
	caller.Send(&wamp.Call{Request: 7002, Options: wamp.Dict{}, Procedure: "zz.epilogue.slow", Arguments: wamp.List{"slow"}})
	w.Wait()
	got := false
	for _, o := range callee.Take() {
		if _, ok := o.Msg.(*wamp.Invocation); ok {
			got = true
		}
	}
	if !got {
		return
	}
	callee.Stall()
	for i := 0; i < 6; i++ {
		filler.Send(&wamp.Publish{Request: wamp.ID(10 + i), Options: wamp.Dict{}, Topic: "zz.epilogue.fill", Arguments: wamp.List{i}})
	}
	w.Wait()
	caller.Take()
	t0 := w.Now()
	caller.Send(&wamp.Cancel{Request: 7002, Options: wamp.Dict{"mode": mode}})
	w.Wait()
	c.Hit("CN7")
	ended := false
	for _, o := range caller.Take() {
		if e, ok := o.Msg.(*wamp.Error); ok && e.Request == 7002 && e.Type == wamp.CALL {
			ended = string(e.Error) == "wamp.error.canceled"
			if !ended {
				c.Fail("CN7", "cancelled call ended with an unexpected error", "CANCEL mode %s for a call whose callee cannot be interrupted (queue full): ERROR %s", mode, e.Error)
				return
			}
		}
	}
	if !ended || w.Now() != t0 {
		c.Fail("CN7", "CANCEL not answered when the callee cannot be interrupted", "CANCEL mode %s for a call whose callee has stopped reading with a full queue (the INTERRUPT cannot be queued): no ERROR wamp.error.canceled for the caller at quiescence (virtual %v after the CANCEL)", mode, w.Now()-t0)
	}
	callee.Resume()
	w.Wait()
}
