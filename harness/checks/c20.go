package checks

import (
	"fmt"
	"math/rand/v2"
	"strings"
	"time"

	"verif/harness/model"
)

// C20 — event history returns the retained publications, and only those.
// Engine "bubble": lock-step history ring model (harness/model/getevents.go).

func init() {
	register(&Prop{
		ID: "C20", Cases: rpcCases(1200, 20000), Batch: rpcBatch,
		Run: runC20,
		Rule: "each case: realm with 1-3 event-history configurations (exact/prefix/wildcard, limit 1,2,3,8), 3-5 sessions over all transports/serializers; script of 15-45 steps: " +
			"acknowledged publications around the ring boundary (matching, not matching, restricted by exclude/eligible), subscriber churn on the history topics incl. UNSUBSCRIBE by non-members naming the " +
			"history subscription and departures, clock advances of whole seconds, and wamp.subscription.get_events / lookup queries from rotating askers with every combination of up to 3 filters " +
			"(limit, reverse, from/after/before/until x time/publication, topic) incl. ill-typed values; lock-step against the ring model; " +
			"non-trivial = a query issued when a ring had wrapped and >=1 restricted publication and >=1 churn event preceded it",
		Required: []string{"EH1", "EH2", "EH3", "EH4", "EH7", "PS5"},
		Level:    "exploration",
	})
}

func runC20(c *Case) {
	g := newScriptGen(c)
	r := c.Rng
	hist := randomHistory(r)
	realm := RealmSetup{RealmSpec: model.RealmSpec{Name: "realm1", MetaKill: true, History: hist}}
	var setups []PuppetSetup
	var script []string
	nt := false
	panicText := c.Bubble(func() {
		run, err := NewRunner(c, []RealmSetup{realm}, nil)
		if err != nil {
			c.Fail("HARNESS", "world", "cannot create world: %v", err)
			return
		}
		exec := func(op model.Op) {
			script = append(script, op.String())
			run.Exec(op)
		}
		for i := 3 + r.IntN(3); i > 0; i-- {
			ps := randomPuppet(r, realm.Name, 60)
			setups = append(setups, ps)
			run.Join(ps)
		}
		// learn the ids of the configured history subscriptions
		for _, h := range hist {
			exec(model.Op{Kind: model.OpMetaCall, P: 0, Req: g.nextReq(0), URI: "wamp.subscription.lookup", Args: []any{h.Topic, map[string]any{"match": h.Match}}})
		}
		topics := []string{"a.b", "a.b.c", "a.x.c", "a.b.d", "a", "b.b.c", "zz"}
		var pubs []model.Ref // publications made so far (acknowledged)
		restricted, churn, wrapped := 0, 0, false
		counts := map[string]int{}
		nSteps := 15 + r.IntN(31)
		for step := 0; step < nSteps; step++ {
			al := run.Mon.AliveSessions()
			if len(al) < 2 {
				break
			}
			p := pick(r, al)
			switch x := r.IntN(100); {
			case x < 42:
				topic := pick(r, topics)
				opts := map[string]any{"acknowledge": true}
				if chance(r, 15) {
					opts["exclude"] = refsTo(somePuppets(r, len(run.W.Puppets), 2)...)
					restricted++
				} else if chance(r, 12) {
					opts["eligible"] = refsTo(somePuppets(r, len(run.W.Puppets), 2)...)
					restricted++
				} else if chance(r, 10) {
					opts["exclude_authrole"] = []any{pick(r, authRoles)}
				}
				args, kw := g.payload()
				req := g.nextReq(p)
				exec(model.Op{Kind: model.OpPublish, P: p, Req: req, URI: topic, Opts: opts, Args: args, Kw: kw})
				pubs = append(pubs, model.Ref{Kind: "pub", P: p, Req: req})
				for _, h := range hist {
					if model.Matches(topic, h.Topic, model.NormMatch(h.Match)) && opts["exclude"] == nil && opts["eligible"] == nil {
						counts[h.Topic+h.Match]++
						if counts[h.Topic+h.Match] > h.Limit {
							wrapped = true
						}
					}
				}
			case x < 52:
				h := pick(r, hist)
				exec(model.Op{Kind: model.OpSubscribe, P: p, Req: g.nextReq(p), URI: h.Topic, Opts: matchOpts(h.Match)})
				churn++
			case x < 62:
				h := pick(r, hist)
				// UNSUBSCRIBE naming the history subscription: by a holder or by a non-member
				exec(model.Op{Kind: model.OpUnsubscribe, P: p, Req: g.nextReq(p), Target: model.Ref{Kind: "sub", Topic: h.Topic, Match: model.NormMatch(h.Match)}})
				churn++
			case x < 66:
				if len(al) > 2 {
					exec(model.Op{Kind: model.OpLeave, P: p, How: pick(r, []string{model.LeaveGoodbye, model.LeaveDrop})})
					churn++
				}
			case x < 70:
				if len(run.W.Puppets) < 8 {
					ps := randomPuppet(r, realm.Name, 60)
					setups = append(setups, ps)
					script = append(script, "join "+ps.String())
					run.Join(ps)
				}
			case x < 80:
				exec(model.Op{Kind: model.OpAdvance, D: pick(r, []time.Duration{200 * time.Millisecond, 700 * time.Millisecond, time.Second, 1300 * time.Millisecond, 2 * time.Second, 3 * time.Second})})
			default:
				h := pick(r, hist)
				kw := map[string]any{}
				now := model.Epoch.Add(run.W.Now())
				ts := func() string { return now.Add(-time.Duration(r.IntN(8)) * time.Second).Format(time.RFC3339) }
				if h.Match != "exact" && len(pubs) > 0 && chance(r, 35) {
					// a topic filter together with a publication bound (the bounding
					// publication may well have gone to another topic)
					kw["topic"] = pick(r, topics[:4])
					kw[pick(r, []string{"from_publication", "after_publication", "before_publication", "until_publication"})] = pick(r, pubs[max(0, len(pubs)-6):])
				}
				for n := r.IntN(4); n > 0; n-- {
					switch r.IntN(12) {
					case 0:
						kw["limit"] = pick(r, []any{1, 2, 3, 100})
					case 1:
						kw["reverse"] = chance(r, 70)
					case 2:
						kw["from_time"] = ts()
					case 3:
						kw["after_time"] = ts()
					case 4:
						kw["before_time"] = ts()
					case 5:
						kw["until_time"] = ts()
					case 6:
						kw["topic"] = pick(r, topics)
					case 7, 8, 9, 10:
						if len(pubs) > 0 {
							kw[pick(r, []string{"from_publication", "after_publication", "before_publication", "until_publication"})] = pick(r, pubs[max(0, len(pubs)-10):])
						}
					default: // ill-typed values must be refused
						switch r.IntN(4) {
						case 0:
							kw["limit"] = pick(r, []any{0, -1})
						case 1:
							kw["reverse"] = "yes"
						case 2:
							kw["from_time"] = "yesterday"
						default:
							kw["after_publication"] = pick(r, []any{0, -3})
						}
					}
				}
				exec(model.Op{Kind: model.OpMetaCall, P: p, Req: g.nextReq(p), URI: "wamp.subscription.get_events",
					Args: []any{model.Ref{Kind: "sub", Topic: h.Topic, Match: model.NormMatch(h.Match)}}, Kw: kw})
				if wrapped && restricted > 0 && churn > 0 {
					nt = true
				}
				if chance(r, 25) {
					exec(model.Op{Kind: model.OpMetaCall, P: p, Req: g.nextReq(p), URI: "wamp.subscription.lookup", Args: []any{h.Topic, map[string]any{"match": h.Match}}})
				}
			}
		}
		c.NT = nt
		c.Add("steps", float64(run.Steps))
		run.Finish()
	})
	if panicText != "" {
		c.Fail("RB1", "bubble panic: "+firstLine(panicText), "%s", panicText)
	}
	var sb strings.Builder
	for _, h := range hist {
		fmt.Fprintf(&sb, "%s/%s/%d;", h.Topic, h.Match, h.Limit)
	}
	for _, ps := range setups {
		sb.WriteString(ps.String() + ";")
	}
	c.Key = sb.String() + strings.Join(script, "\n")
	if c.Index < 3 || len(c.Viol) > 0 {
		c.Sample = map[string]any{"history": fmt.Sprint(hist), "sessions": puppetStrings(setups), "script": clip(script, 70)}
	}
}

var histCfgPool = []model.HistSpec{{Topic: "a.b", Match: "exact"}, {Topic: "a.b.c", Match: "exact"}, {Topic: "a", Match: "prefix"}, {Topic: "a.b.", Match: "prefix"},
	{Topic: "a..c", Match: "wildcard"}, {Topic: ".b.", Match: "wildcard"}}

// randomHistory picks 1-3 event-history configurations over the shared topic pool.
func randomHistory(r *rand.Rand) []model.HistSpec {
	var hist []model.HistSpec
	seen := map[string]bool{}
	for n := 1 + r.IntN(3); n > 0; n-- {
		h := pick(r, histCfgPool)
		if seen[h.Topic+h.Match] {
			continue
		}
		seen[h.Topic+h.Match] = true
		h.Limit = pick(r, []int{1, 2, 3, 8})
		hist = append(hist, h)
	}
	return hist
}
