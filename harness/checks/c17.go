package checks

import (
	"context"
	"math"
	"fmt"
	"math/rand/v2"
	"sort"
	"strings"
	"sync"
	"testing/synctest"
	"time"

	"github.com/gammazero/nexus/v3/client"
	"github.com/gammazero/nexus/v3/transport/serialize"
	"github.com/gammazero/nexus/v3/wamp"

	"verif/harness/canon"
)

// C17 — the client never crashes or hangs, whatever the router sends.
// Engine "bubble": the real client.Client against a scripted hostile router.
// A crash of the worker (panic in a client goroutine) is attributed to the
// case by the driver.

func init() {
	register(&Prop{
		ID: "C17", Cases: rpcCases(2400, 60000), Batch: rpcBatch,
		Run: runC17,
		Rule: "each case: one client.Client (response timeout 100 ms/1 s, router-to-client queue 1/4/default, messages optionally round-tripped through the JSON/msgpack/CBOR serializer so that values have wire types) " +
			"with 3 registered procedures (immediate, waits for its context, progressive), 2 subscriptions; 2-3 episodes of: 3-6 API calls left pending (Subscribe/Register/Publish-ack/Call/Call-with-progress/Unsubscribe/Unregister), " +
			"a burst of 20-40 hostile router messages (every message type incl. client-to-router ones, templates with fields/details/arguments replaced by hostile values, payload-passthru details of every type, " +
			"ids of pending requests / live invocations / unknown, duplicate and triplicate invocations, progressive chunks, replies scheduled at 0, 1 ms, T/2, T-1ms, T, T+1ms, 2T (the calls' context deadline), 2T+1ms, 3T), " +
			"every 4th case the router answers no CANCEL with ERROR but streams RESULTs for the cancelled request every T/2 for 12 T (Call must return one response timeout after its CANCEL), " +
			"then a liveness probe (a new Subscribe answered properly must succeed, a valid INVOCATION must be answered); ending by router GOODBYE / ABORT / transport drop (also mid-burst) / Close answered / Close unanswered / Close with calls pending; " +
			"every 6th case: the router misbehaves during the join (nothing, ABORT, GOODBYE, garbage, WELCOME without/with hostile roles and details, CHALLENGE for offered/unknown methods, then a second answer, delays around the response timeout): NewClient returns within its timeouts, closes the peer on failure, leaves no goroutine (CH6, CH7); " +
			"oracles: no panic, receive loop not blocked at quiescence, probe served, every API call returned within 4T of virtual time after the burst, Done() closed after GOODBYE/ABORT/EOF, Close returns, " +
			"handler entries == exits and no client goroutine an hour later; non-trivial = >=10 distinct (message type, corrupted position/value kind) tuples delivered and >=1 pending call hit by a hostile reply",
		Required: []string{"CH2", "CH3", "CH4", "CH5", "CH6", "CH7", "CL12", "CL13"},
		Level:    "exploration",
	})
}

type c17Call struct {
	desc     string
	returned bool
	err      error
	startAt  time.Duration
	retAt    time.Duration
}

func runC17(c *Case) {
	if c.Index%6 == 5 {
		runC17Join(c)
		return
	}
	r := c.Rng
	tmo := pick(r, []time.Duration{100 * time.Millisecond, time.Second})
	queue := pick(r, []int{0, 0, 1, 4})
	serName := pick(r, []string{"none", "none", "json", "msgpack", "cbor"})
	ending := pick(r, []string{"goodbye", "abort", "drop", "drop-midburst", "goodbye-midburst", "close", "close-noanswer", "close-pending"})
	episodes := 2 + r.IntN(2)
	features := chance(r, 75) // the router's WELCOME announces payload passthru etc.
	// every 4th case the dealer part of the router takes CANCEL and never answers it with ERROR: it goes on
	// sending RESULTs (progressive and final alternating) for the cancelled request every T/2 for 12 T.
	// Call must still return one response timeout after its CANCEL (judged by CH4).
	cancelStream := c.Index%4 == 2
	streams := 0
	var ser serialize.Serializer
	switch serName {
	case "json":
		ser = &serialize.JSONSerializer{}
	case "msgpack":
		ser = &serialize.MessagePackSerializer{}
	case "cbor":
		ser = &serialize.CBORSerializer{}
	}
	tuples := map[string]bool{}
	pendingHit := 0
	var script []string
	panicText := c.Bubble(func() {
		w := newClientWorldOpt(c, tmo, queue, features)
		if w == nil {
			return
		}
		var mu sync.Mutex
		var maxReq uint64 // highest request id the client has used so far
		entries, exits := 0, 0
		ended := false // router said GOODBYE/ABORT or dropped
		answerGoodbye := ending != "close-noanswer"
		pendReqs := map[string]uint64{} // name -> request id of an unanswered request
		var pendIDs []uint64
		regID := map[string]uint64{"ok.plain": 8001, "ok.wait": 8002, "ok.prog": 8003}
		subID := map[string]uint64{"ok.t1": 7001, "ok.t2": 7002}
		nextID := uint64(7100)
		yields := map[uint64]int{}
		// the well-behaved part of the router
		w.rtr.SetAuto(func(m wamp.Message) []wamp.Message {
			mu.Lock()
			defer mu.Unlock()
			name, req := "", uint64(0)
			var ok wamp.Message
			switch x := m.(type) {
			case *wamp.Subscribe:
				name, req = string(x.Topic), uint64(x.Request)
				id := subID[name]
				if id == 0 {
					nextID++
					id = nextID
				}
				ok = &wamp.Subscribed{Request: x.Request, Subscription: wamp.ID(id)}
			case *wamp.Register:
				name, req = string(x.Procedure), uint64(x.Request)
				id := regID[name]
				if id == 0 {
					nextID++
					id = nextID
				}
				ok = &wamp.Registered{Request: x.Request, Registration: wamp.ID(id)}
			case *wamp.Unsubscribe:
				name, req = "pend.unsub", uint64(x.Request)
			case *wamp.Unregister:
				name, req = "pend.unreg", uint64(x.Request)
			case *wamp.Publish:
				name, req = string(x.Topic), uint64(x.Request)
				ok = &wamp.Published{Request: x.Request, Publication: 99}
			case *wamp.Call:
				name, req = string(x.Procedure), uint64(x.Request)
				ok = &wamp.Result{Request: x.Request, Details: wamp.Dict{}, Arguments: wamp.List{"fine"}}
			case *wamp.Cancel:
				if cancelStream {
					streams++
					id := x.Request
					go func() {
						for i := 0; i < 24; i++ {
							select {
							case <-time.After(tmo / 2):
							case <-w.cli.Done():
								return
							case <-w.rtr.quit:
								return
							}
							if !w.rtr.Send(&wamp.Result{Request: id, Details: wamp.Dict{"progress": i%2 == 0}, Arguments: wamp.List{"still running"}}) {
								return
							}
						}
					}()
					return nil
				}
				return []wamp.Message{&wamp.Error{Type: wamp.CALL, Request: x.Request, Details: wamp.Dict{}, Error: "wamp.error.canceled"}}
			case *wamp.Yield:
				if pr, _ := x.Options["progress"].(bool); !pr {
					yields[uint64(x.Request)]++
				}
				return nil
			case *wamp.Error:
				if x.Type == wamp.INVOCATION {
					yields[uint64(x.Request)]++
				}
				return nil
			case *wamp.Goodbye:
				if answerGoodbye {
					return []wamp.Message{&wamp.Goodbye{Details: wamp.Dict{}, Reason: "wamp.close.goodbye_and_out"}}
				}
				return nil
			default:
				return nil
			}
			if req > maxReq {
				maxReq = req
			}
			if strings.HasPrefix(name, "pend.") {
				pendReqs[name] = req
				pendIDs = append(pendIDs, req)
				return nil
			}
			if ok == nil {
				return nil
			}
			return []wamp.Message{ok}
		})
		// deliver: optionally through a serializer, as a socket transport would
		deliver := func(m wamp.Message) bool {
			if ser != nil {
				b, err := ser.Serialize(m)
				if err != nil {
					return true
				}
				m2, err := ser.Deserialize(b)
				if err != nil || m2 == nil {
					return true
				}
				m = m2
			}
			return w.rtr.Send(m)
		}
		// ---- setup
		handler := func(ctx context.Context, inv *wamp.Invocation) client.InvokeResult {
			mu.Lock()
			entries++
			mu.Unlock()
			defer func() {
				mu.Lock()
				exits++
				mu.Unlock()
			}()
			mode := ""
			if len(inv.Arguments) > 0 {
				mode, _ = canon.AsStr(inv.Arguments[0])
			}
			// a chunk of a progressive call: the handler has to return to be given the next one
			if pr, _ := inv.Details["progress"].(bool); pr {
				return client.InvokeResult{Err: wamp.InternalProgressiveOmitResult}
			}
			switch mode {
			case "wait":
				<-ctx.Done()
				return client.InvocationCanceled
			case "prog":
				_ = w.cli.SendProgress(ctx, wamp.List{1}, nil)
				_ = w.cli.SendProgress(ctx, wamp.List{2}, nil)
			}
			return client.InvokeResult{Args: wamp.List{"handled"}}
		}
		evHandler := func(ev *wamp.Event) { time.Sleep(time.Millisecond) }
		var setupErr []error
		for _, p := range []string{"ok.plain", "ok.wait", "ok.prog"} {
			setupErr = append(setupErr, w.cli.Register(p, handler, nil))
		}
		for _, t := range []string{"ok.t1", "ok.t2"} {
			setupErr = append(setupErr, w.cli.Subscribe(t, evHandler, nil))
		}
		for _, e := range setupErr {
			if e != nil {
				c.Fail("HARNESS", "setup", "setup call failed: %v", e)
				w.rtr.Quit()
				return
			}
		}
		invID := uint64(10)
		var liveInv []uint64
		var calls []*c17Call
		api := func(desc string, f func() error) {
			cl := &c17Call{desc: desc, startAt: w.Now()}
			calls = append(calls, cl)
			go func() {
				err := f()
				mu.Lock()
				cl.err, cl.returned, cl.retAt = err, true, w.Now()
				mu.Unlock()
			}()
		}
		judgeCalls := func(when string) {
			mu.Lock()
			defer mu.Unlock()
			for _, cl := range calls {
				c.Hit("CH4")
				if !cl.returned {
					c.Fail("CH4", "API call never returns: "+strings.Fields(cl.desc)[0], "%s: %s started at %v has not returned at %v (response timeout %v)\n%s", when, cl.desc, cl.startAt, w.Now(), tmo, clientStacks())
				}
			}
			calls = nil
		}
		// clientAborted: the client said ABORT (its answer to a protocol violation such as payload passthru
		// from a router that did not announce it) and shut down; that is a deliberate end of the session.
		clientAborted := func() bool {
			select {
			case <-w.cli.Done():
			default:
				return false
			}
			for _, m := range w.rtr.All() {
				if _, ok := m.Msg.(*wamp.Abort); ok {
					return true
				}
			}
			return false
		}
		endNow := func(how string) {
			script = append(script, "END "+how)
			switch how {
			case "goodbye":
				deliver(&wamp.Goodbye{Details: wamp.Dict{}, Reason: "wamp.close.system_shutdown"})
			case "abort":
				deliver(&wamp.Abort{Details: wamp.Dict{"message": "go away"}, Reason: "wamp.error.protocol_violation"})
			case "drop":
				// the connection fails: from now on nothing the client sends is taken (the
				// sender of a socket transport is gone); what was already received is still
				// processed, API calls are under way, then the receive side ends.
				var lateCall uint64
				if chance(r, 50) {
					// a call whose context expires just after the connection failed, while its reply is in flight
					api("Call pend.dropcancel (context expires at the drop)", func() error {
						ctx, cancel := context.WithTimeout(context.Background(), 5*time.Millisecond)
						defer cancel()
						_, err := w.cli.Call(ctx, "pend.dropcancel", nil, nil, nil, nil)
						return err
					})
					synctest.Wait()
					mu.Lock()
					lateCall = pendReqs["pend.dropcancel"]
					mu.Unlock()
				}
				w.rtr.StopReading()
				if lateCall != 0 {
					time.Sleep(6 * time.Millisecond)
					synctest.Wait()
					script = append(script, "in flight at the drop: RESULT for the call being cancelled")
					deliver(&wamp.Result{Request: wamp.ID(lateCall), Details: wamp.Dict{}, Arguments: wamp.List{"late"}})
				}
				for k := r.IntN(3); k > 0; k-- {
					invID++
					m := pick(r, []wamp.Message{
						&wamp.Invocation{Request: wamp.ID(invID), Registration: 9999, Details: wamp.Dict{}},
						&wamp.Invocation{Request: wamp.ID(invID), Registration: 8001, Details: wamp.Dict{"ppt_scheme": "bogus"}},
						&wamp.Invocation{Request: wamp.ID(invID), Registration: 8001, Details: wamp.Dict{"ppt_scheme": "mqtt", "ppt_serializer": "cbor"}},
						&wamp.Invocation{Request: wamp.ID(invID), Registration: 8001, Details: wamp.Dict{}, Arguments: wamp.List{"plain"}},
						&wamp.Event{Subscription: 7001, Publication: 1, Details: wamp.Dict{}},
					})
					script = append(script, fmt.Sprintf("in flight at the drop: %v", m.MessageType()))
					deliver(m)
				}
				for k := r.IntN(3); k > 0; k-- {
					n := fmt.Sprintf("pend.drop%d", k)
					switch r.IntN(4) {
					case 0:
						api("Subscribe "+n+" (at the drop)", func() error { return w.cli.Subscribe(n, evHandler, nil) })
					case 1:
						api("Publish "+n+" (at the drop)", func() error { return w.cli.Publish(n, nil, wamp.List{1}, nil) })
					case 2:
						api("Register "+n+" (at the drop)", func() error { return w.cli.Register(n, handler, nil) })
					default:
						api("Call "+n+" (at the drop)", func() error {
							_, err := w.cli.Call(context.Background(), n, nil, nil, nil, nil)
							return err
						})
					}
				}
				synctest.Wait()
				w.rtr.Drop()
			}
			ended = true
		}
	episodes:
		for ep := 0; ep < episodes; ep++ {
			// ---- API calls left pending
			mu.Lock()
			pendIDs = nil
			mu.Unlock()
			// requests the client gives up before sending them (invalid passthru options): their ids were
			// allocated, and the router may well send replies carrying them
			var abandoned []uint64
			if chance(r, 40) {
				mu.Lock()
				next := maxReq + 1
				mu.Unlock()
				var progcb client.ProgressHandler
				if chance(r, 50) {
					progcb = func(*wamp.Result) {}
				}
				_, e1 := w.cli.Call(context.Background(), "ok.x", wamp.Dict{"ppt_scheme": "bogus"}, wamp.List{1}, nil, progcb)
				e2 := w.cli.Publish("ok.x", wamp.Dict{"acknowledge": true, "ppt_scheme": "bogus"}, wamp.List{1}, nil)
				if e1 != nil && e2 != nil {
					abandoned = []uint64{next, next + 1}
					script = append(script, fmt.Sprintf("e%d client abandoned requests %d and %d (invalid ppt_scheme option)", ep, next, next+1))
				}
			}
			tb := w.Now()
			nPend := 3 + r.IntN(4)
			for i := 0; i < nPend; i++ {
				n := fmt.Sprintf("pend.e%d.%d", ep, i)
				switch pick(r, []string{"subscribe", "register", "publish", "call", "callprog", "unsubscribe", "unregister"}) {
				case "subscribe":
					api("Subscribe "+n, func() error { return w.cli.Subscribe(n, evHandler, nil) })
				case "register":
					api("Register "+n, func() error { return w.cli.Register(n, handler, nil) })
				case "publish":
					api("Publish "+n, func() error { return w.cli.Publish(n, wamp.Dict{"acknowledge": true}, wamp.List{1}, nil) })
				case "call":
					api("Call "+n, func() error {
						ctx, cancel := context.WithTimeout(context.Background(), 2*tmo)
						defer cancel()
						_, err := w.cli.Call(ctx, n, nil, wamp.List{1}, nil, nil)
						return err
					})
				case "callprog":
					api("Call+progress "+n, func() error {
						ctx, cancel := context.WithTimeout(context.Background(), 2*tmo)
						defer cancel()
						_, err := w.cli.Call(ctx, n, nil, wamp.List{1}, nil, func(*wamp.Result) {})
						return err
					})
				case "unsubscribe":
					t := fmt.Sprintf("ok.tmp%d.%d", ep, i)
					if w.cli.Subscribe(t, evHandler, nil) == nil {
						api("Unsubscribe "+t, func() error { return w.cli.Unsubscribe(t) })
					}
				case "unregister":
					p := fmt.Sprintf("ok.tmp%d.%d", ep, i)
					if w.cli.Register(p, handler, nil) == nil {
						api("Unregister "+p, func() error { return w.cli.Unregister(p) })
					}
				}
			}
			synctest.Wait()
			mu.Lock()
			pids := append([]uint64(nil), pendIDs...)
			mu.Unlock()
			// ---- the hostile burst
			type item struct {
				at   time.Duration
				msg  wamp.Message
				desc string
			}
			var plan []item
			offsets := []time.Duration{0, 0, 0, time.Millisecond, tmo / 2, tmo - time.Millisecond, tmo, tmo, tmo + time.Millisecond, 2 * tmo, 2 * tmo, 2*tmo + time.Millisecond, 3 * tmo}
			n := 20 + r.IntN(21)
			for i := 0; i < n; i++ {
				at := pick(r, offsets)
				switch k := r.IntN(10); {
				case k < 4: // corrupted template of any type
					t := pick(r, []wamp.MessageType{wamp.EVENT, wamp.EVENT, wamp.INVOCATION, wamp.INVOCATION, wamp.INVOCATION, wamp.INTERRUPT, wamp.RESULT, wamp.RESULT, wamp.ERROR, wamp.ERROR,
						wamp.REGISTERED, wamp.SUBSCRIBED, wamp.UNSUBSCRIBED, wamp.UNREGISTERED, wamp.PUBLISHED, wamp.WELCOME, wamp.CHALLENGE, wamp.HELLO, wamp.CALL, wamp.PUBLISH,
						wamp.SUBSCRIBE, wamp.YIELD, wamp.CANCEL, wamp.AUTHENTICATE, wamp.REGISTER, wamp.UNREGISTER, wamp.UNSUBSCRIBE})
					m := c17Template(r, t, pids, liveInv, &invID)
					d := corrupt(r, m)
					c17Sanitize(m, &invID)
					if inv, ok := m.(*wamp.Invocation); ok {
						liveInv = append(liveInv, uint64(inv.Request))
					}
					plan = append(plan, item{at, m, fmt.Sprintf("%v{%s}", t, d)})
				case k < 6: // payload passthru details of every kind on event / invocation / result
					t := pick(r, []wamp.MessageType{wamp.EVENT, wamp.INVOCATION, wamp.RESULT})
					m := c17Template(r, t, pids, liveInv, &invID)
					d := c17PPT(r, m)
					if inv, ok := m.(*wamp.Invocation); ok {
						liveInv = append(liveInv, uint64(inv.Request))
					}
					plan = append(plan, item{at, m, fmt.Sprintf("%v{ppt %s}", t, d)})
				case k < 8 && len(pids) > 0: // replies (possibly of the wrong type, duplicated) for pending requests
					id := wamp.ID(pick(r, pids))
					m := pick(r, []wamp.Message{
						&wamp.Result{Request: id, Details: wamp.Dict{}, Arguments: wamp.List{"x"}},
						&wamp.Result{Request: id, Details: wamp.Dict{"progress": true}, Arguments: wamp.List{"x"}},
						&wamp.Error{Type: pick(r, []wamp.MessageType{wamp.CALL, wamp.SUBSCRIBE, wamp.REGISTER, wamp.PUBLISH, wamp.UNSUBSCRIBE, wamp.UNREGISTER, wamp.INVOCATION}), Request: id, Details: wamp.Dict{}, Error: "wamp.error.canceled"},
						&wamp.Subscribed{Request: id, Subscription: wamp.ID(pick(r, []uint64{7001, 7002, 0, 9999}))},
						&wamp.Registered{Request: id, Registration: wamp.ID(pick(r, []uint64{8001, 8002, 0, 9999}))},
						&wamp.Published{Request: id, Publication: 1},
						&wamp.Unsubscribed{Request: id},
						&wamp.Unregistered{Request: id},
					})
					pendingHit++
					plan = append(plan, item{at, m, fmt.Sprintf("%v{pending id}", m.MessageType())})
					if chance(r, 40) {
						plan = append(plan, item{at, m, fmt.Sprintf("%v{pending id, duplicate}", m.MessageType())})
					}
				default: // invocation sequences
					reg := wamp.ID(pick(r, []uint64{8001, 8002, 8002, 8003, 9999}))
					mode := map[wamp.ID]string{8001: "plain", 8002: "wait", 8003: "prog", 9999: "plain"}[reg]
					invID++
					id := wamp.ID(invID)
					liveInv = append(liveInv, invID)
					switch pick(r, []string{"triple", "interrupt", "progressive", "timeout", "final-dups"}) {
					case "triple":
						for j := 0; j < 3; j++ {
							plan = append(plan, item{at, &wamp.Invocation{Request: id, Registration: reg, Details: wamp.Dict{}, Arguments: wamp.List{mode}}, "INVOCATION{same id x3, " + mode + "}"})
						}
						plan = append(plan, item{at + time.Millisecond, &wamp.Interrupt{Request: id, Options: wamp.Dict{}}, "INTERRUPT"})
					case "interrupt":
						plan = append(plan, item{at, &wamp.Invocation{Request: id, Registration: reg, Details: wamp.Dict{}, Arguments: wamp.List{mode}}, "INVOCATION{" + mode + "}"})
						plan = append(plan, item{at, &wamp.Interrupt{Request: id, Options: wamp.Dict{"mode": hostileValue(r, 0), "reason": hostileValue(r, 0)}}, "INTERRUPT{hostile options}"})
						plan = append(plan, item{at, &wamp.Interrupt{Request: id, Options: nil}, "INTERRUPT{again, nil options}"})
					case "progressive":
						for j := 0; j < 3; j++ {
							plan = append(plan, item{at, &wamp.Invocation{Request: id, Registration: reg, Details: wamp.Dict{"progress": true, "receive_progress": hostileValue(r, 0)}, Arguments: wamp.List{mode}}, "INVOCATION{progress chunk, " + mode + "}"})
						}
						if chance(r, 60) {
							plan = append(plan, item{at + time.Millisecond, &wamp.Invocation{Request: id, Registration: reg, Details: wamp.Dict{"progress": hostileValue(r, 0)}, Arguments: wamp.List{mode}}, "INVOCATION{final chunk, hostile progress}"})
						} else {
							plan = append(plan, item{at + time.Millisecond, &wamp.Interrupt{Request: id, Options: wamp.Dict{}}, "INTERRUPT{mid progressive}"})
						}
					case "final-dups":
						// a progressive call: one chunk, the final invocation (whose handler runs on), then duplicates of the final one
						plan = append(plan, item{at, &wamp.Invocation{Request: id, Registration: reg, Details: wamp.Dict{"progress": true}, Arguments: wamp.List{mode}}, "INVOCATION{progress chunk, " + mode + "}"})
						for j := 0; j < 3; j++ {
							plan = append(plan, item{at, &wamp.Invocation{Request: id, Registration: reg, Details: wamp.Dict{}, Arguments: wamp.List{mode}}, "INVOCATION{final after a chunk, sent x3, " + mode + "}"})
						}
						plan = append(plan, item{at + time.Millisecond, &wamp.Interrupt{Request: id, Options: wamp.Dict{}}, "INTERRUPT"})
					case "timeout":
						plan = append(plan, item{at, &wamp.Invocation{Request: id, Registration: reg, Details: wamp.Dict{"timeout": pick(r, []any{1, 50, int64(tmo / time.Millisecond), -1, "5", 1.5, uint64(1) << 63, true, int64(1) << 62, int64(math.MaxInt64), int64(1) << 53, int64(9223372036854)}), "receive_progress": true}, Arguments: wamp.List{mode}}, "INVOCATION{timeout detail, " + mode + "}"})
					}
				}
			}
			for _, id := range abandoned {
				m := pick(r, []wamp.Message{
					&wamp.Result{Request: wamp.ID(id), Details: wamp.Dict{}, Arguments: wamp.List{"x"}},
					&wamp.Error{Type: wamp.CALL, Request: wamp.ID(id), Details: wamp.Dict{}, Error: "wamp.error.canceled"},
					&wamp.Published{Request: wamp.ID(id), Publication: 1},
				})
				plan = append(plan, item{pick(r, offsets), m, fmt.Sprintf("%v{id of a request the client abandoned}", m.MessageType())})
			}
			sort.SliceStable(plan, func(i, j int) bool { return plan[i].at < plan[j].at })
			cut := -1
			if ep == episodes-1 && strings.HasSuffix(ending, "-midburst") {
				cut = r.IntN(len(plan))
			}
			for i, p := range plan {
				if d := tb + p.at - w.Now(); d > 0 {
					time.Sleep(d)
				}
				if i == cut {
					endNow(strings.TrimSuffix(ending, "-midburst"))
					break
				}
				if clientAborted() {
					// the client ended the session itself over a protocol violation (it said ABORT): nothing more to send
					script = append(script, "client sent ABORT")
					ended = true
					break
				}
				script = append(script, fmt.Sprintf("e%d +%v %s", ep, p.at, p.desc))
				tuples[p.desc] = true
				c.Tracef("router -> client: %s %v", p.desc, p.msg)
				if !deliver(p.msg) {
					break
				}
			}
			synctest.Wait()
			if !ended && clientAborted() {
				script = append(script, "client sent ABORT")
				ended = true
			}
			// release handlers that wait for their context: a correct router interrupts or the call times out;
			// here the router interrupts every invocation it started.
			if !ended {
				for _, id := range liveInv {
					deliver(&wamp.Interrupt{Request: wamp.ID(id), Options: wamp.Dict{}})
				}
				liveInv = nil
			}
			time.Sleep(4*tmo + 10*time.Millisecond)
			synctest.Wait()
			c.Hit("CH2")
			if st := runLoopBlocked(); st != "" {
				c.Fail("CH2", "client receive loop blocked: "+leakSig(st), "episode %d: 4 x timeout after the burst the client's receive goroutine is still blocked outside its select loop, so no further message is processed:\n%s", ep, st)
				break episodes
			}
			if !ended && w.rtr.Stuck() && !clientAborted() { // (after the router itself ended the session nobody takes its late replies)
				c.Fail("CH2", "client stopped taking messages from the router", "episode %d: a message could not be handed to the client for a virtual hour\n%s", ep, w.rtr.StuckInfo())
				break episodes
			}
			judgeCalls(fmt.Sprintf("episode %d, 4 x timeout after the burst", ep))
			if ended {
				break
			}
			// ---- liveness probe
			c.Hit("CH3")
			probeTopic := fmt.Sprintf("ok.probe%d", ep)
			var perr error
			pdone := false
			go func() {
				perr = w.cli.Subscribe(probeTopic, evHandler, nil)
				pdone = true
			}()
			invID++
			pid := invID
			deliver(&wamp.Invocation{Request: wamp.ID(pid), Registration: 8001, Details: wamp.Dict{}, Arguments: wamp.List{"plain"}})
			time.Sleep(2 * tmo)
			synctest.Wait()
			if !pdone {
				c.Fail("CH3", "probe call blocked after hostile burst", "episode %d: Subscribe(%q) has not returned 2 x timeout later\n%s", ep, probeTopic, clientStacks())
				break
			}
			select {
			case <-w.cli.Done():
				c.Fail("CH3", "client shut down on a hostile message", "episode %d: Done() is closed although the router sent no GOODBYE/ABORT and the transport is up; log tail:\n%s", ep, strings.Join(clip(w.log.Tail(), 12), "\n"))
				ended = true
				break episodes
			default:
			}
			if perr != nil {
				c.Fail("CH3", "probe call fails after hostile burst", "episode %d: Subscribe(%q), answered by the router with SUBSCRIBED, returned %v", ep, probeTopic, perr)
			}
			mu.Lock()
			ny := yields[pid]
			mu.Unlock()
			if ny != 1 {
				c.Fail("CH3", "probe invocation not answered after hostile burst", "episode %d: INVOCATION %d for the registered procedure ok.plain got %d final answers", ep, pid, ny)
			}
		}
		// ---- ending
		if !ended {
			switch ending {
			case "goodbye", "abort", "drop":
				// with calls pending
				api("Call pend.final", func() error {
					_, err := w.cli.Call(context.Background(), "pend.final", nil, nil, nil, nil)
					return err
				})
				api("Subscribe pend.final", func() error { return w.cli.Subscribe("pend.final", evHandler, nil) })
				invID++
				deliver(&wamp.Invocation{Request: wamp.ID(invID), Registration: 8002, Details: wamp.Dict{}, Arguments: wamp.List{"wait"}})
				synctest.Wait()
				endNow(ending)
			case "close-pending":
				api("Call pend.final", func() error {
					_, err := w.cli.Call(context.Background(), "pend.final", nil, nil, nil, nil)
					return err
				})
				invID++
				deliver(&wamp.Invocation{Request: wamp.ID(invID), Registration: 8002, Details: wamp.Dict{}, Arguments: wamp.List{"wait"}})
				synctest.Wait()
				script = append(script, "END "+ending)
			default:
				script = append(script, "END "+ending)
			}
		}
		if ended {
			synctest.Wait()
			time.Sleep(20 * time.Millisecond) // event handlers in progress take 1 ms each
			synctest.Wait()
			c.Hit("CH5")
			select {
			case <-w.cli.Done():
			default:
				c.Fail("CH5", "Done() not signalled after the router ended the session", "ending %q: Done() still open at quiescence\n%s", ending, clientStacks())
			}
			// later API calls return
			api("Subscribe after-end", func() error { return w.cli.Subscribe("ok.after", evHandler, nil) })
			api("Call after-end", func() error {
				_, err := w.cli.Call(context.Background(), "ok.after", nil, nil, nil, nil)
				return err
			})
			api("Publish after-end", func() error { return w.cli.Publish("ok.after", wamp.Dict{"acknowledge": true}, nil, nil) })
			time.Sleep(4 * tmo)
			synctest.Wait()
			judgeCalls("after the router ended the session (" + ending + ")")
		}
		w.closeAndCheck(c, false)
		judgeCalls("after Close")
		mu.Lock()
		c.Hit("CL13")
		if entries != exits {
			c.Fail("CL13", "invocation handler still running after Close", "%d handler entries, %d exits one virtual hour after Close", entries, exits)
		}
		mu.Unlock()
	})
	if panicText != "" {
		c.Fail("CH1", "bubble panic: "+firstLine(panicText), "%s", panicText)
	}
	c.NT = len(tuples) >= 10 && pendingHit > 0
	c.Add("hostile_messages", float64(len(script)))
	c.Add("cancels_answered_by_a_result_stream", float64(streams))
	c.SetMax("distinct_message_shapes_in_a_case", float64(len(tuples)))
	c.Key = fmt.Sprintf("tmo=%v q=%d ser=%s end=%s feat=%v cs=%v|%s", tmo, queue, serName, ending, features, cancelStream, strings.Join(script, "\n"))
	if c.Index < 3 || len(c.Viol) > 0 {
		c.Sample = map[string]any{"response_timeout": tmo.String(), "queue": queue, "serializer": serName, "ending": ending, "router_announces_features": features, "cancel_answered_by_result_stream": cancelStream, "script": clip(script, 60)}
	}
}

// c17Template builds a plausible router-to-client (or misdirected) message.
func c17Template(r *rand.Rand, t wamp.MessageType, pend []uint64, liveInv []uint64, invID *uint64) wamp.Message {
	pid := wamp.ID(pick(r, []uint64{1, 2, 99999}))
	if len(pend) > 0 && chance(r, 70) {
		pid = wamp.ID(pick(r, pend))
	}
	args := wamp.List{"plain", 1}
	switch t {
	case wamp.EVENT:
		return &wamp.Event{Subscription: wamp.ID(pick(r, []uint64{7001, 7002, 7001, 0, 9999})), Publication: 5, Details: wamp.Dict{}, Arguments: args}
	case wamp.INVOCATION:
		*invID++
		id := *invID
		if len(liveInv) > 0 && chance(r, 30) {
			id = pick(r, liveInv)
		}
		return &wamp.Invocation{Request: wamp.ID(id), Registration: wamp.ID(pick(r, []uint64{8001, 8002, 8003, 0, 9999})), Details: wamp.Dict{},
			Arguments: wamp.List{pick(r, []string{"plain", "wait", "prog"})}}
	case wamp.INTERRUPT:
		id := uint64(3)
		if len(liveInv) > 0 {
			id = pick(r, liveInv)
		}
		return &wamp.Interrupt{Request: wamp.ID(id), Options: wamp.Dict{}}
	case wamp.RESULT:
		return &wamp.Result{Request: pid, Details: wamp.Dict{}, Arguments: args}
	case wamp.ERROR:
		return &wamp.Error{Type: pick(r, []wamp.MessageType{wamp.CALL, wamp.SUBSCRIBE, wamp.REGISTER, wamp.PUBLISH, wamp.INVOCATION, 0, 99}), Request: pid, Details: wamp.Dict{}, Error: "com.err", Arguments: args}
	case wamp.REGISTERED:
		return &wamp.Registered{Request: pid, Registration: wamp.ID(pick(r, []uint64{8001, 8500}))}
	case wamp.SUBSCRIBED:
		return &wamp.Subscribed{Request: pid, Subscription: wamp.ID(pick(r, []uint64{7001, 7500}))}
	case wamp.UNSUBSCRIBED:
		return &wamp.Unsubscribed{Request: pid}
	case wamp.UNREGISTERED:
		return &wamp.Unregistered{Request: pid}
	case wamp.PUBLISHED:
		return &wamp.Published{Request: pid, Publication: 77}
	case wamp.WELCOME:
		return &wamp.Welcome{ID: 4243, Details: wamp.Dict{}}
	case wamp.CHALLENGE:
		return &wamp.Challenge{AuthMethod: "wampcra", Extra: wamp.Dict{}}
	case wamp.HELLO:
		return &wamp.Hello{Realm: "realm1", Details: wamp.Dict{}}
	case wamp.CALL:
		return &wamp.Call{Request: pid, Options: wamp.Dict{}, Procedure: "ok.plain", Arguments: args}
	case wamp.PUBLISH:
		return &wamp.Publish{Request: pid, Options: wamp.Dict{}, Topic: "ok.t1", Arguments: args}
	case wamp.SUBSCRIBE:
		return &wamp.Subscribe{Request: pid, Options: wamp.Dict{}, Topic: "ok.t1"}
	case wamp.YIELD:
		return &wamp.Yield{Request: pid, Options: wamp.Dict{}, Arguments: args}
	case wamp.CANCEL:
		return &wamp.Cancel{Request: pid, Options: wamp.Dict{}}
	case wamp.AUTHENTICATE:
		return &wamp.Authenticate{Signature: "s", Extra: wamp.Dict{}}
	case wamp.REGISTER:
		return &wamp.Register{Request: pid, Options: wamp.Dict{}, Procedure: "ok.plain"}
	case wamp.UNREGISTER:
		return &wamp.Unregister{Request: pid, Registration: 8001}
	case wamp.UNSUBSCRIBE:
		return &wamp.Unsubscribe{Request: pid, Subscription: 7001}
	}
	return &wamp.Published{Request: pid}
}

// c17Sanitize keeps invocation/interrupt request ids in a range that leaves
// room for later valid ids (ids must increase; a router that jumps to 2^63
// cannot be served afterwards and that is not the client's fault), and makes
// sure handlers that wait can be released (first argument kept a mode string).
func c17Sanitize(m wamp.Message, invID *uint64) {
	switch x := m.(type) {
	case *wamp.Invocation:
		if uint64(x.Request) > 1<<40 || x.Request == 0 {
			*invID++
			x.Request = wamp.ID(*invID)
		} else if uint64(x.Request) > *invID {
			*invID = uint64(x.Request)
		}
		if len(x.Arguments) > 0 {
			if s, ok := x.Arguments[0].(string); ok && s == "wait" {
				return
			}
		}
	case *wamp.Interrupt:
		if uint64(x.Request) > 1<<40 {
			x.Request = 3
		}
	}
}

// c17PPT sets payload-passthru details of every kind.
func c17PPT(r *rand.Rand, m wamp.Message) string {
	var det wamp.Dict
	var args *wamp.List
	switch x := m.(type) {
	case *wamp.Event:
		det, args = x.Details, &x.Arguments
	case *wamp.Invocation:
		det, args = x.Details, &x.Arguments
	case *wamp.Result:
		det, args = x.Details, &x.Arguments
	}
	scheme := pick(r, []any{"mqtt", "wamp", "x_custom", "x_", "bogus", "mqtt", "wamp"})
	det["ppt_scheme"] = scheme
	serKind := r.IntN(6)
	var serDesc string
	switch serKind {
	case 0:
		serDesc = "absent"
	case 1:
		v := hostileValue(r, 0)
		det["ppt_serializer"] = v
		serDesc = valueKind(v)
	default:
		s := pick(r, []string{"native", "json", "msgpack", "cbor", "flatbuffers", ""})
		det["ppt_serializer"] = s
		serDesc = s
	}
	if chance(r, 30) {
		det["ppt_cipher"] = hostileValue(r, 0)
		det["ppt_keyid"] = hostileValue(r, 0)
	}
	var argDesc string
	switch r.IntN(7) {
	case 0:
		*args = nil
		argDesc = "no args"
	case 1:
		*args = wamp.List{}
		argDesc = "empty args"
	case 2:
		v := hostileValue(r, 0)
		*args = wamp.List{v}
		argDesc = "arg0 " + valueKind(v)
	case 3:
		*args = wamp.List{[]byte("null")}
		argDesc = "arg0 bytes null"
	case 4:
		*args = wamp.List{[]byte{0xf6}} // CBOR null / msgpack invalid
		argDesc = "arg0 bytes f6"
	case 5:
		*args = wamp.List{[]byte(`{"args":[1],"kwargs":{"a":1}}`)}
		argDesc = "arg0 json payload"
	default:
		*args = wamp.List{&wamp.PassthruPayload{Arguments: wamp.List{"plain"}}}
		argDesc = "arg0 native payload"
	}
	return fmt.Sprintf("scheme=%v ser=%s %s", scheme, serDesc, argDesc)
}
