package checks

import (
	"fmt"
	"strings"
	"time"

	"github.com/gammazero/nexus/v3/router"
	"github.com/gammazero/nexus/v3/wamp"

	"verif/harness/canon"
	"verif/harness/sim"
)

// C07 — an unresponsive client never blocks others; the router never
// deadlocks. Engine "bubble": some sessions stop reading (in every role) while
// the others keep exchanging traffic; every request of a reading session must
// be answered, and every delivery to it made, at the very virtual instant it
// was sent (the one exception: a callee that yields to a blocked caller may be
// held for the result-retry period); a stalled session, once resumed, may not
// drain more than its queue bound; the bubble's deadlock detector and a final
// +3 min drain decide "never wait on each other in a cycle".

const sendResultDeadline = time.Minute // documented retry period of the dealer

func init() {
	register(&Prop{
		ID: "C07", Cases: rpcCases(800, 8000), Batch: rpcBatch,
		Run: runC07,
		Rule: "each case: 3 reading sessions (publisher/caller, subscriber/callee, callee serving the stalled callers, all transports) and 1-3 sessions that stop reading after setting up " +
			"subscriptions (hot topic, wamp. meta topics), registrations and pending calls, with router->client queue sizes 1,2,16,64 and tiny socket buffers; 6-14 rounds of traffic: acknowledged " +
			"publications to the hot topic, calls between readers, calls to stalled callees, YIELDs (progressive and final) to stalled callers, requests sent by the stalled sessions themselves " +
			"(repeated SUBSCRIBE, PUBLISH, CALL, orphan progressive and final YIELDs, invocation ERRORs, refused UNSUBSCRIBE/UNREGISTER/CANCEL/invalid requests), meta calls, kills and departures of stalled sessions, AddRealm/RemoveRealm; oracles: every reply/delivery to a reader carries the virtual timestamp of " +
			"its request (zero delay; retry-period bound for the yielding callee), backlog drained after resume <= queue bound, no bubble deadlock, every request answered after a +3 min drain; " +
			"every 2nd case ends with RemoveRealm of the realm while one of its rawsocket sessions does not drain (closing it takes seconds) and a client joins another realm 1 ms later: WELCOME at that very instant (ST6); " +
			"non-trivial = >=1 message was dropped for a stalled session while a reader had a request in flight in the same round; every 4th case instead: nobody stalled, 6-8 closed-loop sessions " +
			"(register/unregister churn, subscribe/unsubscribe churn, 1-3 meta API callers, meta event observer, acknowledged publisher, caller of the churned procedure; 30-120 rounds each, GOMAXPROCS 1/2/4/8) " +
			"released together: every loop must have completed all rounds when the bubble is quiescent (ST5), non-trivial = >=100 rounds completed; every 16th case (engine live): the router behind its real " +
			"RawSocketServer/WebsocketServer (unix and loopback TCP sockets, OutQueueSize 1/4/16/default) with the project's client transports: a subscriber stops reading, a publisher sends queue+120 acknowledged " +
			"32 KiB publications in closed loop, the subscriber resumes: events kept for it <= configured queue + 4 + socket buffers (LV1), publisher never disconnected (LV2), order kept (LV3)",
		Required: []string{"ST1", "ST2", "ST3", "ST4", "ST5", "ST6", "LV1"},
		Level:    "exploration",
	})
}

type c07Stalled struct {
	p        *sim.Puppet
	q        int
	pipe     int
	role     string
	sentTo   int // messages the router was asked to deliver while stalled
	killed   bool
	resumed  bool // started reading again (scenario finalYieldThenResume)
	callReqs []uint64
}

func runC07(c *Case) {
	if c.Index%4 == 3 {
		runC07Concurrent(c)
		return
	}
	if c.Index%16 == 5 {
		runC07Live(c)
		return
	}
	r := c.Rng
	var script []string
	dropped, inflight := 0, 0
	note := func(f string, a ...any) {
		s := fmt.Sprintf(f, a...)
		script = append(script, s)
		c.Tracef("%s", s)
	}
	panicText := c.Bubble(func() {
		cfg := &router.Config{RealmConfigs: []*router.RealmConfig{{URI: "realm1", AnonymousAuth: true, AllowDisclose: true, EnableMetaKill: true}}}
		w, err := sim.NewWorld(cfg)
		if err != nil {
			c.Fail("HARNESS", "world", "cannot create world: %v", err)
			return
		}
		join := func(spec sim.PuppetSpec) *sim.Puppet {
			p := w.AddPuppet(spec)
			p.Join("realm1", wamp.Dict{"roles": sim.AllFeatures()})
			return p
		}
		pub := join(sim.PuppetSpec{Kind: randomKind(r, 50)})  // publisher and caller
		sub := join(sim.PuppetSpec{Kind: randomKind(r, 50)})  // subscriber and callee for the readers
		srv := join(sim.PuppetSpec{Kind: randomKind(r, 50)})  // callee serving calls of the stalled callers
		obsv := join(sim.PuppetSpec{Kind: sim.Local})         // meta observer / meta API user
		readers := []*sim.Puppet{pub, sub, srv, obsv}
		for _, p := range readers {
			if p.SID == 0 {
				c.Fail("HARNESS", "join", "reader could not join")
				return
			}
		}
		sub.Send(&wamp.Subscribe{Request: 1, Options: wamp.Dict{}, Topic: "hot"})
		sub.Send(&wamp.Register{Request: 2, Options: wamp.Dict{}, Procedure: "reader.proc"})
		srv.Send(&wamp.Register{Request: 1, Options: wamp.Dict{}, Procedure: "srv.proc"})
		obsv.Send(&wamp.Subscribe{Request: 1, Options: wamp.Dict{"match": "prefix"}, Topic: "wamp.session."})
		w.Wait()
		// ---- stalled sessions
		var stalled []*c07Stalled
		nSt := 1 + r.IntN(3)
		for i := 0; i < nSt; i++ {
			kind := randomKind(r, 55)
			q := pick(r, []int{1, 2, 16, 64})
			pipe := pick(r, []int{256, 1024, 4096})
			if kind.IsWS() {
				pipe = pick(r, []int{1, 2, 8})
			}
			st := &c07Stalled{p: join(sim.PuppetSpec{Kind: kind, QSize: q, PipeBuf: pipe}), q: q, pipe: pipe,
				role: pick(r, []string{"subscriber", "callee", "caller", "meta-subscriber", "all"})}
			if st.p.SID == 0 {
				continue
			}
			stalled = append(stalled, st)
			req := wamp.ID(1)
			if st.role == "subscriber" || st.role == "all" {
				st.p.Send(&wamp.Subscribe{Request: req, Options: wamp.Dict{}, Topic: "hot"})
				req++
			}
			if st.role == "meta-subscriber" || st.role == "all" {
				st.p.Send(&wamp.Subscribe{Request: req, Options: wamp.Dict{"match": "prefix"}, Topic: "wamp."})
				req++
			}
			if st.role == "callee" || st.role == "all" {
				st.p.Send(&wamp.Register{Request: req, Options: wamp.Dict{"invoke": "roundrobin"}, Procedure: "stalled.proc"})
				req++
			}
			if st.role == "caller" || st.role == "all" {
				for k := 0; k < 1+r.IntN(3); k++ {
					st.p.Send(&wamp.Call{Request: req, Options: wamp.Dict{"receive_progress": true}, Procedure: "srv.proc", Arguments: wamp.List{"from-stalled", st.p.Idx, uint64(req)}})
					st.callReqs = append(st.callReqs, uint64(req))
					req++
				}
			}
			st.p.Send(&wamp.Subscribe{Request: 90, Options: wamp.Dict{}, Topic: "hot2"})
			note("stalled P%d %s q=%d buf=%d role=%s", st.p.Idx, kind, q, pipe, st.role)
		}
		w.Wait()
		var srvInvs []wamp.ID // invocations srv holds for the stalled callers
		type owner struct {
			idx int
			req uint64
		}
		invOwner := map[wamp.ID]owner{}
		for _, o := range srv.Take() {
			if iv, ok := o.Msg.(*wamp.Invocation); ok {
				srvInvs = append(srvInvs, iv.Request)
				if len(iv.Arguments) >= 3 {
					a, _ := canon.AsID(iv.Arguments[1])
					b, _ := canon.AsID(iv.Arguments[2])
					invOwner[iv.Request] = owner{int(a), b}
				}
			}
		}
		for _, p := range readers {
			p.Take()
		}
		for _, st := range stalled {
			st.p.Take()
			st.p.Stall()
		}
		w.Wait()
		// ---- helpers: a request of a reader must be completed at the instant it was sent
		reqN := uint64(1000)
		held := map[*sim.Puppet]time.Duration{} // reader -> virtual time until which its handler may be held (yield retry)
		const retryBound = sendResultDeadline + 6*time.Second
		hold := func(p *sim.Puppet) {
			base := w.Now()
			if held[p] > base {
				base = held[p]
			}
			held[p] = base + retryBound
		}
		var metaHeld time.Duration // the router's meta session is itself a callee that may be held by a blocked caller
		expectNow := func(who *sim.Puppet, what string, t0 time.Duration, found bool, at time.Duration) {
			c.Hit("ST1")
			inflight++
			if until, ok := held[who]; ok && t0 < until {
				return // the documented exception
			}
			if !found {
				c.Fail("ST1", "reader not served while others are stalled: "+strings.Fields(what)[0], "%s: not completed at quiescence at virtual %v with %d stalled session(s): %s; last seen by P%d: %s",
					what, t0, len(stalled), strings.Join(script[max(0, len(script)-6):], " | "), who.Idx, obsString(who.Log(), 4))
			} else if at != t0 {
				c.Fail("ST1", "reader served with delay: "+strings.Fields(what)[0], "%s: sent at virtual %v, completed at %v", what, t0, at)
			}
		}
		publish := func(from *sim.Puppet) {
			reqN++
			tok := fmt.Sprintf("tok-%d", reqN)
			t0 := w.Now()
			from.Send(&wamp.Publish{Request: wamp.ID(reqN), Options: wamp.Dict{"acknowledge": true}, Topic: "hot", Arguments: wamp.List{tok, strings.Repeat("x", 100)}})
			w.Wait()
			var okP, okE bool
			var atP, atE time.Duration
			for _, o := range from.Take() {
				if m, ok := o.Msg.(*wamp.Published); ok && uint64(m.Request) == reqN {
					okP, atP = true, o.At
				}
			}
			for _, o := range sub.Take() {
				if m, ok := o.Msg.(*wamp.Event); ok && len(m.Arguments) > 0 && m.Arguments[0] == tok {
					okE, atE = true, o.At
				}
			}
			note("publish by P%d", from.Idx)
			expectNow(from, fmt.Sprintf("PUBLISHED for P%d's publication %d", from.Idx, reqN), t0, okP, atP)
			if from != sub {
				expectNow(sub, fmt.Sprintf("EVENT %s at the reading subscriber P%d", tok, sub.Idx), t0, okE, atE)
			}
			for _, st := range stalled {
				if !st.killed && !st.resumed && (st.role == "subscriber" || st.role == "all") {
					st.sentTo++
					if st.sentTo > st.q {
						dropped++
					}
				}
			}
		}
		call := func() {
			reqN++
			tok := fmt.Sprintf("call-%d", reqN)
			t0 := w.Now()
			pub.Send(&wamp.Call{Request: wamp.ID(reqN), Options: wamp.Dict{}, Procedure: "reader.proc", Arguments: wamp.List{tok}})
			w.Wait()
			var inv wamp.ID
			var atI time.Duration
			for _, o := range sub.Take() {
				if m, ok := o.Msg.(*wamp.Invocation); ok && len(m.Arguments) > 0 && m.Arguments[0] == tok {
					inv, atI = m.Request, o.At
				}
			}
			note("call reader.proc")
			expectNow(sub, "INVOCATION "+tok, t0, inv != 0, atI)
			if inv == 0 {
				return
			}
			sub.Send(&wamp.Yield{Request: inv, Options: wamp.Dict{}, Arguments: wamp.List{tok}})
			w.Wait()
			var okR bool
			var atR time.Duration
			for _, o := range pub.Take() {
				if m, ok := o.Msg.(*wamp.Result); ok && uint64(m.Request) == reqN {
					okR, atR = true, o.At
				}
			}
			if t0 >= held[sub] { // a callee held by its earlier yield to a blocked caller answers late (the documented exception)
				expectNow(pub, "RESULT "+tok, t0, okR, atR)
			}
		}
		callStalled := func() {
			// a call to a stalled callee: queued in its queue, or refused at once when the queue is full
			reqN++
			t0 := w.Now()
			pub.Send(&wamp.Call{Request: wamp.ID(reqN), Options: wamp.Dict{}, Procedure: "stalled.proc", Arguments: wamp.List{"to-stalled"}})
			w.Wait()
			answered := false
			for _, o := range pub.Take() {
				if m, ok := o.Msg.(*wamp.Error); ok && uint64(m.Request) == reqN {
					answered = true
					c.Hit("ST1")
					if o.At != t0 {
						c.Fail("ST1", "refusal of a call to a blocked callee delayed", "ERROR for call %d to a stalled callee came at %v, call was sent at %v", reqN, o.At, t0)
					}
				}
			}
			note("call stalled.proc answered=%v", answered)
			if !answered {
				// pending at the stalled callee: cancel it (skip) so that it cannot linger
				pub.Send(&wamp.Cancel{Request: wamp.ID(reqN), Options: wamp.Dict{"mode": pick(r, []string{"skip", "kill", "killnowait"})}})
				w.Wait()
				pub.Take()
			}
		}
		fillAndKillCancel := func() {
			// calls to a stalled callee until one is refused (its queue is full); a kill-mode CANCEL of
			// the pending ones cannot deliver its INTERRUPT and must degrade to skip: ERROR canceled at once
			nCallee, localCallee := 0, false
			for _, x := range stalled {
				if !x.killed && (x.role == "callee" || x.role == "all") {
					nCallee++
					localCallee = x.p.Kind == sim.Local && !x.resumed
				}
			}
			if nCallee != 1 || !localCallee {
				return // only decidable with a single in-process stalled callee (exact queue accounting)
			}
			var pending []uint64
			for k := 0; k < 80; k++ {
				reqN++
				pub.Send(&wamp.Call{Request: wamp.ID(reqN), Options: wamp.Dict{}, Procedure: "stalled.proc", Arguments: wamp.List{"fill"}})
				w.Wait()
				refused := false
				for _, o := range pub.Take() {
					if m, ok := o.Msg.(*wamp.Error); ok && uint64(m.Request) == reqN {
						refused = true
					}
				}
				if refused {
					break
				}
				pending = append(pending, reqN)
				if k == 79 {
					return // no stalled callee registered, or never full
				}
			}
			note("filled the queue of a stalled callee with %d calls, now CANCEL kill", len(pending))
			for _, rq := range pending {
				t0 := w.Now()
				pub.Send(&wamp.Cancel{Request: wamp.ID(rq), Options: wamp.Dict{"mode": "kill"}})
				w.Wait()
				var ok bool
				var at time.Duration
				for _, o := range pub.Take() {
					if m, isE := o.Msg.(*wamp.Error); isE && uint64(m.Request) == rq && m.Type == wamp.CALL {
						ok, at = true, o.At
					}
				}
				expectNow(pub, fmt.Sprintf("ERROR canceled for kill-mode CANCEL of call %d whose callee cannot be interrupted (its queue is full)", rq), t0, ok, at)
			}
		}
		finalYieldThenResume := func() {
			// a final YIELD meets a blocked caller; the caller starts reading again within the retry
			// period: the RESULT must still arrive
			if w.Now() < held[srv] {
				return // the callee is still busy retrying an earlier yield
			}
			for len(srvInvs) > 0 {
				inv := srvInvs[0]
				srvInvs = srvInvs[1:]
				ow, ok := invOwner[inv]
				if !ok {
					continue
				}
				var st *c07Stalled
				for _, x := range stalled {
					if x.p.Idx == ow.idx && !x.killed && !x.resumed && x.p.Kind == sim.Local {
						st = x
					}
				}
				if st == nil {
					continue
				}
				for k := 0; k < st.q+1; k++ { // fill the caller's queue with progressive results
					srv.Send(&wamp.Yield{Request: inv, Options: wamp.Dict{"progress": true}, Arguments: wamp.List{"p", k}})
				}
				w.Wait()
				hold(srv)
				srv.Send(&wamp.Yield{Request: inv, Options: wamp.Dict{}, Arguments: wamp.List{"final-for-blocked-caller"}})
				w.Wait()
				w.Advance(20 * time.Millisecond)
				st.p.Resume()
				w.Advance(2 * time.Second)
				note("final YIELD to blocked caller P%d, caller resumed 20 ms later", st.p.Idx)
				c.Hit("ST1")
				got := false
				n := 0
				for _, o := range st.p.Take() {
					if o.Msg != nil {
						n++
					}
					if res, ok := o.Msg.(*wamp.Result); ok && uint64(res.Request) == ow.req {
						if pr, _ := res.Details["progress"].(bool); !pr {
							got = true
						}
					}
					if e, ok := o.Msg.(*wamp.Error); ok && uint64(e.Request) == ow.req {
						got = true // the call was ended with an error: also a final reply
					}
				}
				if !got {
					c.Fail("ST1", "final result lost for a caller that resumed within the retry period", "P%d stopped reading with a full queue (%d), the callee yielded the final result, P%d resumed 20 ms later: no final RESULT/ERROR for call %d arrived within 2 s (drained %d messages)", st.p.Idx, st.q, st.p.Idx, ow.req, n)
				}
				st.resumed = true // reading again: not part of the later backlog accounting
				return
			}
		}
		yieldToStalled := func() {
			if len(srvInvs) == 0 {
				return
			}
			inv := srvInvs[0]
			progress := chance(r, 60)
			if !progress {
				srvInvs = srvInvs[1:]
			}
			srv.Send(&wamp.Yield{Request: inv, Options: wamp.Dict{"progress": progress}, Arguments: wamp.List{strings.Repeat("y", 200)}})
			w.Wait()
			// srv's handler may now be retrying for up to the result-retry period (the doubling
			// delays overshoot the deadline by at most 5.5 s); yields queue up behind each other
			hold(srv)
			note("yield(progress=%v) by P%d to a stalled caller", progress, srv.Idx)
			for _, st := range stalled {
				if st.role == "caller" || st.role == "all" {
					st.sentTo++
				}
			}
		}
		stalledSends := func() {
			if len(stalled) == 0 {
				return
			}
			st := pick(r, stalled)
			if st.killed {
				return
			}
			switch r.IntN(8) {
			case 4: // progressive YIELD for an invocation that does not exist (any more): the dealer answers with an INTERRUPT that cannot be queued
				st.p.Send(&wamp.Yield{Request: wamp.ID(1 + r.IntN(40)), Options: wamp.Dict{"progress": true}, Arguments: wamp.List{"orphan"}})
			case 5: // other answers nobody waits for
				st.p.Send(&wamp.Yield{Request: wamp.ID(1 + r.IntN(40)), Options: wamp.Dict{}, Arguments: wamp.List{"orphan"}})
				st.p.Send(&wamp.Error{Type: wamp.INVOCATION, Request: wamp.ID(1 + r.IntN(40)), Details: wamp.Dict{}, Error: "com.x"})
			case 6: // requests that are refused (every refusal is a reply that cannot be queued)
				st.p.Send(&wamp.Unsubscribe{Request: 94, Subscription: wamp.ID(1 + r.IntN(9))})
				st.p.Send(&wamp.Unregister{Request: 95, Registration: wamp.ID(1 + r.IntN(9))})
				st.p.Send(&wamp.Cancel{Request: wamp.ID(200 + r.IntN(50)), Options: wamp.Dict{"mode": "kill"}})
			case 7:
				st.p.Send(&wamp.Subscribe{Request: 96, Options: wamp.Dict{"match": "bogus"}, Topic: "a..b"})
				st.p.Send(&wamp.Register{Request: 97, Options: wamp.Dict{}, Procedure: "wamp.x"})
				st.p.Send(&wamp.Publish{Request: 98, Options: wamp.Dict{"acknowledge": true}, Topic: "a..b"})
			case 0: // repeated SUBSCRIBE of a topic it already holds
				st.p.Send(&wamp.Subscribe{Request: 91, Options: wamp.Dict{}, Topic: "hot2"})
			case 1:
				st.p.Send(&wamp.Publish{Request: 92, Options: wamp.Dict{"acknowledge": true, "exclude_me": false}, Topic: "hot2", Arguments: wamp.List{"self"}})
			case 2:
				proc := pick(r, []wamp.URI{"reader.proc", "wamp.session.count", "nosuch"})
				st.p.Send(&wamp.Call{Request: wamp.ID(200 + r.IntN(50)), Options: wamp.Dict{}, Procedure: proc})
				if proc == "wamp.session.count" {
					base := w.Now()
					if metaHeld > base {
						base = metaHeld
					}
					metaHeld = base + retryBound
				}
			default:
				st.p.Send(&wamp.Register{Request: 93, Options: wamp.Dict{}, Procedure: "stalled.proc"})
			}
			st.sentTo++
			w.Wait()
			// the reading callee may have received an invocation from the stalled caller: answer it
			for _, o := range sub.Take() {
				if iv, ok := o.Msg.(*wamp.Invocation); ok {
					sub.Send(&wamp.Yield{Request: iv.Request, Options: wamp.Dict{}, Arguments: wamp.List{"for-stalled"}})
					hold(sub)
				}
			}
			w.Wait()
			note("request sent by stalled P%d", st.p.Idx)
		}
		metaCall := func() {
			reqN++
			t0 := w.Now()
			proc := pick(r, []wamp.URI{"wamp.session.count", "wamp.session.list", "wamp.subscription.list", "wamp.registration.list"})
			obsv.Send(&wamp.Call{Request: wamp.ID(reqN), Options: wamp.Dict{}, Procedure: proc})
			w.Wait()
			var ok bool
			var at time.Duration
			for _, o := range obsv.Take() {
				if m, isR := o.Msg.(*wamp.Result); isR && uint64(m.Request) == reqN {
					ok, at = true, o.At
				}
			}
			note("meta call %s", proc)
			if t0 >= metaHeld {
				expectNow(obsv, fmt.Sprintf("RESULT of %s", proc), t0, ok, at)
			}
		}
		kill := func() {
			var cand []*c07Stalled
			for _, st := range stalled {
				if !st.killed {
					cand = append(cand, st)
				}
			}
			if len(cand) == 0 {
				return
			}
			st := pick(r, cand)
			reqN++
			t0 := w.Now()
			obsv.Send(&wamp.Call{Request: wamp.ID(reqN), Options: wamp.Dict{}, Procedure: "wamp.session.kill", Arguments: wamp.List{st.p.SID}})
			w.Wait()
			st.killed = true
			var ok bool
			var at time.Duration
			for _, o := range obsv.Take() {
				if m, isR := o.Msg.(*wamp.Result); isR && uint64(m.Request) == reqN {
					ok, at = true, o.At
				}
			}
			note("kill of stalled P%d", st.p.Idx)
			if t0 >= metaHeld {
				expectNow(obsv, "RESULT of wamp.session.kill of a stalled session", t0, ok, at)
			}
		}
		realmOps := func() {
			t0 := w.Now()
			done := w.RunBlocked(func() {
				_ = w.Router.AddRealm(&router.RealmConfig{URI: "tmp.realm", AnonymousAuth: true})
				w.Router.RemoveRealm("tmp.realm")
			})
			note("AddRealm/RemoveRealm")
			c.Hit("ST1")
			if !done || w.Now() != t0 {
				c.Fail("ST1", "realm operation blocked by a stalled session", "AddRealm+RemoveRealm of an unrelated realm returned=%v, virtual time moved from %v to %v", done, t0, w.Now())
			}
		}
		rounds := 6 + r.IntN(9)
		for i := 0; i < rounds; i++ {
			for k := 0; k < 1+r.IntN(6); k++ {
				publish(pub)
			}
			switch r.IntN(11) {
			case 9:
				fillAndKillCancel()
			case 10:
				finalYieldThenResume()
			case 0, 1:
				call()
			case 2:
				callStalled()
			case 3:
				yieldToStalled()
			case 4:
				stalledSends()
			case 5:
				metaCall()
			case 6:
				kill()
			case 7:
				realmOps()
			default:
				publish(sub)
			}
			if chance(r, 15) {
				w.Advance(pick(r, []time.Duration{time.Millisecond, time.Second, 10 * time.Second}))
				for _, p := range readers {
					p.Take()
				}
			}
		}
		// ---- the retry exception is bounded: after it the held callee is served again at once
		if until, ok := held[srv]; ok {
			if held[sub] > until {
				until = held[sub]
			}
			if metaHeld > until {
				until = metaHeld
			}
			w.Advance(until - w.Now() + time.Second)
			for _, p := range readers {
				p.Take()
			}
			delete(held, srv)
			delete(held, sub)
			c.Hit("ST1")
			publish(srv)
		}
		// ---- ST2: resumed backlog is bounded by the queue (+ what fits into the socket buffer)
		for _, st := range stalled {
			st.p.Take()
			st.p.Resume()
		}
		w.Wait()
		for _, st := range stalled {
			if st.resumed {
				continue
			}
			n := 0
			for _, o := range st.p.Take() {
				if o.Msg != nil {
					n++
				}
			}
			bound := st.q
			if st.p.Kind.IsRaw() {
				bound += st.pipe/20 + 2
			} else if st.p.Kind.IsWS() {
				bound += st.pipe + 2
			}
			c.Hit("ST2")
			c.SetMax("max_backlog_drained", float64(n))
			if n > bound {
				c.Fail("ST2", "stalled session buffered more than its queue", "P%d (%s, queue %d, socket buffer %d) drained %d messages after resuming; bound %d", st.p.Idx, st.p.Kind, st.q, st.pipe, n, bound)
			}
		}
		// ---- ST4: after a +3 min drain everything the readers ask is answered at once
		w.Advance(3 * time.Minute)
		for _, p := range readers {
			p.Take()
		}
		held = map[*sim.Puppet]time.Duration{}
		metaHeld = 0
		c.Hit("ST4")
		publish(pub)
		call()
		metaCall()
		// ---- ST6: removing a realm whose sessions do not drain must not hold up the other realms
		if c.Index%2 == 0 {
			_ = w.Router.AddRealm(&router.RealmConfig{URI: "other.realm", AnonymousAuth: true})
			slow := join(sim.PuppetSpec{Kind: pick(r, []sim.Kind{sim.RawJSON, sim.RawMsgpack, sim.RawCBOR}), QSize: 2, PipeBuf: 256})
			slow.Send(&wamp.Subscribe{Request: 1, Options: wamp.Dict{}, Topic: "slow.topic"})
			w.Wait()
			slow.Take()
			slow.Stall()
			for i := 0; i < 12; i++ { // its pipe (256 bytes) and queue (2) fill up: the router-side writer is blocked in a write
				pub.Send(&wamp.Publish{Request: wamp.ID(9000 + i), Options: wamp.Dict{}, Topic: "slow.topic", Arguments: wamp.List{strings.Repeat("s", 300)}})
			}
			w.Wait()
			joiner := w.AddPuppet(sim.PuppetSpec{Kind: randomKind(r, 50)})
			removed := false
			go func() {
				w.Router.RemoveRealm("realm1")
				removed = true
			}()
			go func() {
				time.Sleep(time.Millisecond) // the removal has begun (closing the slow session's transport takes seconds)
				joiner.Send(&wamp.Hello{Realm: "other.realm", Details: wamp.Dict{"roles": sim.AllFeatures()}})
			}()
			joinAt := w.Now() + time.Millisecond
			w.Advance(2 * time.Millisecond)
			c.Hit("ST6")
			var at time.Duration = -1
			for _, o := range joiner.Log() {
				if _, ok := o.Msg.(*wamp.Welcome); ok {
					at = o.At
				}
			}
			if at != joinAt {
				c.Fail("ST6", "join of another realm held up by the removal of a realm with a slow session", "a client sent HELLO for realm other.realm at virtual %v while realm1 (with a session whose transport does not drain) was being removed; WELCOME at %v (-1: none yet); RemoveRealm returned by then: %v", joinAt, at, removed)
			}
			w.Advance(30 * time.Second)
			if !removed {
				c.Fail("SD1", "RemoveRealm did not return", "RemoveRealm(realm1) with a session whose transport does not drain did not return within 30 virtual seconds")
			}
			note("RemoveRealm(realm1) with a slow session while a client joins other.realm")
		}
		rep := w.Teardown()
		c.Hit("ST3")
		if !rep.CloseReturned {
			c.Fail("SD1", "router close did not return", "Router.Close() did not return with stalled sessions present")
		}
		for _, g := range rep.Leaked {
			c.Fail("SD5", "goroutine left after close: "+leakSig(g), "%s", g)
		}
	})
	if panicText != "" {
		c.Fail("ST3", "bubble panic: "+firstLine(panicText), "%s", panicText)
	}
	c.NT = dropped > 0 && inflight > 0
	c.Add("messages_dropped_for_stalled", float64(dropped))
	c.Add("reader_requests_checked", float64(inflight))
	c.Key = strings.Join(script, "\n")
	if c.Index < 3 || len(c.Viol) > 0 {
		c.Sample = map[string]any{"script": clip(script, 60)}
	}
}
