package checks

import (
	"fmt"
	"strings"
	"sync"
	"testing/synctest"
	"time"

	"github.com/gammazero/nexus/v3/client"
	"github.com/gammazero/nexus/v3/transport"
	"github.com/gammazero/nexus/v3/wamp"

	"verif/harness/canon"
	"verif/harness/sim"
)

// rtrMsg is a message the real client sent to the scripted router.
type rtrMsg struct {
	At  time.Duration
	Msg wamp.Message
}

// scriptedRouter is the router side of a LinkedPeers pair, driven by the check.
type scriptedRouter struct {
	peer      wamp.Peer
	start     time.Time
	mu        sync.Mutex
	in        []rtrMsg
	taken     int
	closed    bool // the client closed its side
	quit      chan struct{}
	qonce     sync.Once
	deaf      chan struct{} // closed when the router side stops taking messages from the client
	hold      chan struct{} // non-nil while paused
	pauseSig  chan struct{}
	donce     sync.Once
	sendMu    chan struct{} // serialises sends (channel semaphore: durable blocking)
	down      bool          // router side closed by the script
	stuck     bool          // a Send could not be delivered for a virtual hour
	stuckInfo string
	// auto, when set, is called by the reader for every message from the client;
	// what it returns is sent back at once (a dealer answering CANCEL, say).
	auto func(m wamp.Message) []wamp.Message
}

// Pause makes the router side stop taking messages from the client until Unpause (a transport whose
// peer is slow: what the client sends meanwhile waits in its hands).
func (s *scriptedRouter) Pause() {
	s.mu.Lock()
	if s.hold == nil {
		s.hold = make(chan struct{})
	}
	s.mu.Unlock()
	select {
	case s.pauseSig <- struct{}{}:
	default:
	}
}

func (s *scriptedRouter) Unpause() {
	s.mu.Lock()
	if s.hold != nil {
		close(s.hold)
		s.hold = nil
	}
	s.mu.Unlock()
}

func (s *scriptedRouter) reader() {
	for {
		s.mu.Lock()
		h := s.hold
		s.mu.Unlock()
		if h != nil {
			select {
			case <-h:
			case <-s.deaf:
				return
			case <-s.quit:
				return
			}
			continue
		}
		select {
		case <-s.pauseSig:
			continue
		case m, ok := <-s.peer.Recv():
			if !ok {
				s.mu.Lock()
				s.closed = true
				s.mu.Unlock()
				return
			}
			s.mu.Lock()
			s.in = append(s.in, rtrMsg{time.Since(s.start), m})
			auto := s.auto
			s.mu.Unlock()
			if auto != nil {
				if out := auto(m); len(out) > 0 {
					go func() {
						for _, o := range out {
							s.Send(o)
						}
					}()
				}
			}
		case <-s.deaf:
			return
		case <-s.quit:
			return
		}
	}
}

// StopReading makes the router side stop taking messages from the client, as
// the sender of a socket transport does once the connection has failed: what
// the client tries to send from then on is never taken.
func (s *scriptedRouter) StopReading() { s.donce.Do(func() { close(s.deaf) }) }

// Take returns what the client sent since the last Take.
func (s *scriptedRouter) Take() []rtrMsg {
	s.mu.Lock()
	defer s.mu.Unlock()
	out := append([]rtrMsg(nil), s.in[s.taken:]...)
	s.taken = len(s.in)
	return out
}

// SetAuto installs the automatic responder.
func (s *scriptedRouter) SetAuto(f func(m wamp.Message) []wamp.Message) {
	s.mu.Lock()
	s.auto = f
	s.mu.Unlock()
}

func (s *scriptedRouter) All() []rtrMsg {
	s.mu.Lock()
	defer s.mu.Unlock()
	return append([]rtrMsg(nil), s.in...)
}

func (s *scriptedRouter) ClientClosed() bool {
	s.mu.Lock()
	defer s.mu.Unlock()
	return s.closed
}

// Send hands a message to the client (blocks while the client's queue is full,
// gives up when the world ends).
func (s *scriptedRouter) Send(m wamp.Message) bool {
	select {
	case s.sendMu <- struct{}{}:
	case <-s.quit:
		return false
	}
	defer func() { <-s.sendMu }()
	if s.down {
		return false
	}
	select {
	case s.peer.Send() <- m:
		return true
	default:
	}
	tm := time.NewTimer(time.Hour)
	defer tm.Stop()
	select {
	case s.peer.Send() <- m:
		return true
	case <-tm.C:
		info := fmt.Sprintf("message %v %v not taken by the client between %v and %v; goroutines then:\n%s", m.MessageType(), m, time.Since(s.start)-time.Hour, time.Since(s.start), clientStacks())
		s.mu.Lock()
		if !s.stuck {
			s.stuckInfo = info
		}
		s.stuck = true
		s.mu.Unlock()
		return false
	case <-s.quit:
		return false
	}
}

// Stuck reports whether the client stopped taking messages from its transport.
func (s *scriptedRouter) Stuck() bool {
	s.mu.Lock()
	defer s.mu.Unlock()
	return s.stuck
}

func (s *scriptedRouter) StuckInfo() string {
	s.mu.Lock()
	defer s.mu.Unlock()
	return s.stuckInfo
}

// SendAfter sends m after d of virtual time, from its own goroutine.
func (s *scriptedRouter) SendAfter(d time.Duration, m wamp.Message) {
	go func() {
		if d > 0 {
			select {
			case <-time.After(d):
			case <-s.quit:
				return
			}
		}
		s.Send(m)
	}()
}

// Drop closes the router side of the transport (the client sees its receive channel closed).
func (s *scriptedRouter) Drop() {
	select {
	case s.sendMu <- struct{}{}:
	case <-s.quit:
		return
	}
	if !s.down {
		s.down = true
		s.peer.Close()
	}
	<-s.sendMu
}

func (s *scriptedRouter) Quit() { s.qonce.Do(func() { close(s.quit) }) }

// clientWorld is a real nexus client connected to a scripted router, in a bubble.
type clientWorld struct {
	cli   *client.Client
	rtr   *scriptedRouter
	log   *sim.LogBuf
	start time.Time
	tmo   time.Duration
}

func (w *clientWorld) Now() time.Duration { return time.Since(w.start) }

func routerWelcome(roles bool) *wamp.Welcome {
	d := wamp.Dict{"authid": "u", "authrole": "r"}
	feat := wamp.Dict{"features": wamp.Dict{}}
	if roles {
		feat = wamp.Dict{"features": wamp.Dict{"payload_passthru_mode": true, "progressive_call_invocations": true, "progressive_call_results": true,
			"call_canceling": true, "pattern_based_subscription": true, "call_timeout": true}}
	}
	d["roles"] = wamp.Dict{"broker": feat, "dealer": feat}
	return &wamp.Welcome{ID: 4242, Details: d}
}

// newClientWorld creates the client; the scripted router answers the HELLO
// with WELCOME. Returns nil if the client could not be created.
func newClientWorld(c *Case, tmo time.Duration, queue int) *clientWorld {
	return newClientWorldOpt(c, tmo, queue, true)
}

// newClientWorldOpt: features=false makes the router announce its roles without any feature
// (no payload passthru, no progressive calls, no call cancelling).
func newClientWorldOpt(c *Case, tmo time.Duration, queue int, features bool) *clientWorld {
	cliPeer, rtrPeer := transport.LinkedPeersQSize(queue)
	w := &clientWorld{log: sim.NewLogBuf(200), start: time.Now(), tmo: tmo}
	w.rtr = &scriptedRouter{peer: rtrPeer, start: w.start, quit: make(chan struct{}), deaf: make(chan struct{}), pauseSig: make(chan struct{}, 1), sendMu: make(chan struct{}, 1)}
	go w.rtr.reader()
	var cerr error
	done := make(chan struct{})
	go func() {
		defer close(done)
		w.cli, cerr = client.NewClient(cliPeer, client.Config{Realm: "realm1", ResponseTimeout: tmo, Logger: w.log})
	}()
	synctest.Wait()
	for _, m := range w.rtr.Take() {
		if _, ok := m.Msg.(*wamp.Hello); ok {
			w.rtr.Send(routerWelcome(features))
		}
	}
	synctest.Wait()
	select {
	case <-done:
	default:
		c.Fail("HARNESS", "client create", "NewClient did not return after WELCOME")
		w.rtr.Quit()
		return nil
	}
	if cerr != nil || w.cli == nil {
		c.Fail("HARNESS", "client create", "NewClient failed: %v", cerr)
		w.rtr.Quit()
		return nil
	}
	return w
}

// closeAndCheck closes the client and checks CL12 (Close returns) and CL13 (no client goroutine left).
func (w *clientWorld) closeAndCheck(c *Case, answerGoodbye bool) {
	closed := make(chan struct{})
	go func() {
		defer close(closed)
		_ = w.cli.Close()
	}()
	synctest.Wait()
	if answerGoodbye {
		for _, m := range w.rtr.Take() {
			if _, ok := m.Msg.(*wamp.Goodbye); ok {
				w.rtr.Send(&wamp.Goodbye{Details: wamp.Dict{}, Reason: "wamp.close.goodbye_and_out"})
			}
		}
	}
	synctest.Wait()
	returned := func() bool {
		select {
		case <-closed:
			return true
		default:
			return false
		}
	}
	if !returned() {
		time.Sleep(10 * w.tmo)
		synctest.Wait()
	}
	c.Hit("CL12")
	if !returned() {
		c.Fail("CL12", "client Close does not return", "Client.Close() still blocked after 10 x response timeout (%v) of virtual time\n%s", 10*w.tmo, clientStacks())
		w.rtr.Drop()
		synctest.Wait()
	}
	w.rtr.Quit()
	time.Sleep(time.Hour)
	synctest.Wait()
	c.Hit("CL13")
	for _, g := range sim.Leaked() {
		c.Fail("CL13", "client goroutine left after Close: "+leakSig(g), "goroutine with nexus frames alive one virtual hour after Client.Close():\n%s", g)
	}
}

// runLoopBlocked returns the stack of the client's receive goroutine when, at
// a quiescent point, it is not back in its select loop (blocked handing a
// message to somebody who is no longer there). Empty when it is fine.
func runLoopBlocked() string {
	for _, g := range sim.Leaked() {
		if !strings.Contains(g, "client.(*Client).run(") {
			continue
		}
		for _, f := range []string{"runSignalReply", "runHandleInvocation", "runHandleEvent", "runHandleInterrupt"} {
			if strings.Contains(g, "client.(*Client)."+f+"(") {
				return g
			}
		}
	}
	return ""
}

func clientStacks() string {
	out := ""
	for i, g := range sim.Leaked() {
		if i < 6 {
			out += g + "\n\n"
		}
	}
	return out
}

func tokenOf(args wamp.List) string {
	if len(args) == 0 {
		return ""
	}
	s, _ := canon.AsStr(args[0])
	return s
}
