package checks

import (
	"fmt"
	"strings"
	"time"

	"verif/harness/model"
)

// C18 — meta API and meta events mirror the realm's actual state. Engine
// "bubble": lock-step session/registration/subscription model with exact
// prediction of every meta event at every subscriber of a meta topic, and meta
// procedure answers compared with the model after every step.

func init() {
	register(&Prop{
		ID: "C18", Cases: rpcCases(1200, 20000), Batch: rpcBatch,
		Run: runC18,
		Rule: "generated scripts of joins, departures (goodbye/drop/violation), kills (by id, authid, authrole, all), SUBSCRIBE/UNSUBSCRIBE/REGISTER/UNREGISTER churn incl. refused and ineffective requests, " +
			"testament add/flush, with >=2 meta observers (prefix wamp., exact and wildcard meta subscriptions) and a meta procedure call by a rotating observer after every step; every meta event " +
			"(topic, arguments, order, receivers) and every meta answer is predicted by the model; non-trivial = script with >=1 refused/ineffective request and >=1 kill while >=2 observers were subscribed",
		Required: []string{"MT1", "MT2", "MT3", "MT4", "MT5", "MT6", "MT7", "MT8", "MT9"},
		Level:    "exploration",
	})
}

var metaTopicsExact = []string{model.TopicSessOnJoin, model.TopicSessOnLeave, model.TopicSubOnCreate, model.TopicSubOnSub, model.TopicSubOnUnsub,
	model.TopicSubOnDelete, model.TopicRegOnCreate, model.TopicRegOnReg, model.TopicRegOnUnreg, model.TopicRegOnDelete}

func runC18(c *Case) {
	g := newScriptGen(c)
	r := c.Rng
	realm := RealmSetup{RealmSpec: model.RealmSpec{Name: "realm1", Strict: chance(r, 20), AllowDisclose: chance(r, 50), MetaKill: true}, MetaStrict: chance(r, 30)}
	var setups []PuppetSetup
	var script []string
	refused, kills := 0, 0
	panicText := c.Bubble(func() {
		run, err := NewRunner(c, []RealmSetup{realm}, nil)
		if err != nil {
			c.Fail("HARNESS", "world", "cannot create world: %v", err)
			return
		}
		run.Mon.TrackMeta = true
		exec := func(op model.Op) {
			script = append(script, op.String())
			run.Exec(op)
		}
		join := func() {
			ps := randomPuppet(r, realm.Name, 45)
			ps.Features = nil
			setups = append(setups, ps)
			script = append(script, "join "+ps.String())
			run.Join(ps)
		}
		nPup := 3 + r.IntN(4)
		for i := 0; i < nPup; i++ {
			join()
		}
		// observers: P0 everything under wamp., P1 a mix of exact and wildcard meta subscriptions
		exec(model.Op{Kind: model.OpSubscribe, P: 0, Req: g.nextReq(0), URI: "wamp.", Opts: matchOpts("prefix")})
		for i := 0; i < 4; i++ {
			exec(model.Op{Kind: model.OpSubscribe, P: 1, Req: g.nextReq(1), URI: pick(r, metaTopicsExact), Opts: matchOpts("")})
		}
		exec(model.Op{Kind: model.OpSubscribe, P: 1, Req: g.nextReq(1), URI: pick(r, []string{"wamp..on_delete", "wamp.session.", "..on_create", "wamp.registration."}), Opts: matchOpts("wildcard")})
		// learn the router's own meta registrations
		exec(model.Op{Kind: model.OpMetaCall, P: 0, Req: g.nextReq(0), URI: "wamp.registration.list"})
		observers := []int{0, 1}
		nSteps := 15 + r.IntN(30)
		metaQuery := func() {
			al := run.Mon.AliveSessions()
			if len(al) == 0 {
				return
			}
			p := pick(r, al)
			if chance(r, 60) {
				for _, o := range observers {
					if s := run.Mon.Sess[o]; s != nil && s.Alive {
						p = o
						break
					}
				}
			}
			op := model.Op{Kind: model.OpMetaCall, P: p, Req: g.nextReq(p)}
			regs := run.Mon.Registrations()
			anyID := func() any {
				switch r.IntN(4) {
				case 0:
					return model.Ref{Kind: "raw", Raw: uint64(900 + r.IntN(50))}
				case 1:
					return pick(r, []any{"x", nil, -1, 0, true})
				}
				return nil
			}
			switch r.IntN(16) {
			case 0:
				op.URI = "wamp.session.count"
				if chance(r, 40) {
					op.Args = []any{[]any{pick(r, authRoles), pick(r, authRoles)}}
				}
			case 1:
				op.URI = "wamp.session.list"
				if chance(r, 40) {
					op.Args = []any{[]any{pick(r, authRoles)}}
				}
			case 2:
				op.URI = "wamp.session.get"
				if chance(r, 75) {
					op.Args = []any{model.Ref{Kind: "sid", P: r.IntN(len(run.W.Puppets))}}
				} else if v := anyID(); v != nil {
					op.Args = []any{v}
				}
			case 3:
				op.URI = "wamp.registration.list"
			case 4:
				op.URI = "wamp.registration.lookup"
				uri, m := g.topicAndMatch(0)
				op.Args = []any{uri}
				if m != "" {
					op.Args = append(op.Args, map[string]any{"match": m})
				}
				if len(regs) > 0 && chance(r, 60) {
					rg := pick(r, regs)
					op.Args = []any{rg.URI, map[string]any{"match": rg.Policy}}
				}
			case 5:
				op.URI = "wamp.registration.match"
				op.Args = []any{pick(r, procPool)}
			case 6, 7, 8:
				op.URI = pick(r, []string{"wamp.registration.get", "wamp.registration.list_callees", "wamp.registration.count_callees"})
				if len(regs) > 0 && chance(r, 75) {
					rg := pick(r, regs)
					op.Args = []any{model.Ref{Kind: "reg", Topic: rg.URI, Match: rg.Policy}}
				} else if v := anyID(); v != nil {
					op.Args = []any{v}
				}
			case 9:
				op.URI = "wamp.subscription.list"
			case 10:
				op.URI = "wamp.subscription.lookup"
				uri, m := g.topicAndMatch(0)
				op.Args = []any{uri}
				if m != "" {
					op.Args = append(op.Args, map[string]any{"match": m})
				}
			case 11:
				op.URI = "wamp.subscription.match"
				op.Args = []any{pick(r, append(append([]string{}, poolTopics...), model.TopicSessOnJoin, model.TopicRegOnDelete))}
			default:
				op.URI = pick(r, []string{"wamp.subscription.get", "wamp.subscription.list_subscribers", "wamp.subscription.count_subscribers"})
				uri, m := g.topicAndMatch(0)
				if chance(r, 30) {
					uri, m = "wamp.", "prefix"
				}
				if chance(r, 80) {
					op.Args = []any{model.Ref{Kind: "sub", Topic: uri, Match: model.NormMatch(m)}}
				} else if v := anyID(); v != nil {
					op.Args = []any{v}
				}
			}
			exec(op)
		}
		type sk struct {
			p        int
			uri, pol string
		}
		var held []sk
		for step := 0; step < nSteps; step++ {
			al := run.Mon.AliveSessions()
			if len(al) < 2 {
				break
			}
			p := pick(r, al)
			switch x := r.IntN(100); {
			case x < 18:
				uri, m := g.topicAndMatch(12)
				if chance(r, 10) {
					uri, m = pick(r, metaTopicsExact), ""
				}
				if !model.ValidURI(uri, realm.Strict, model.NormMatch(m)) {
					refused++
				}
				exec(model.Op{Kind: model.OpSubscribe, P: p, Req: g.nextReq(p), URI: uri, Opts: matchOpts(m)})
				held = append(held, sk{p, uri, model.NormMatch(m)})
			case x < 28:
				op := model.Op{Kind: model.OpUnsubscribe, P: p, Req: g.nextReq(p)}
				if len(held) > 0 && chance(r, 85) {
					h := pick(r, held)
					if chance(r, 60) {
						op.P = h.p
						op.Req = g.nextReq(h.p)
						if s := run.Mon.Sess[op.P]; s == nil || !s.Alive {
							continue
						}
					} else {
						refused++
					}
					op.Target = model.Ref{Kind: "sub", Topic: h.uri, Match: h.pol}
				} else {
					op.Target = model.Ref{Kind: "raw", Raw: uint64(300 + r.IntN(9))}
					refused++
				}
				exec(op)
			case x < 46:
				uri, m := g.topicAndMatch(10)
				if m == "" || m == "exact" {
					uri = pick(r, procPool)
				}
				opts := matchOpts(m)
				if inv := pick(r, invokePolicies); inv != "" {
					opts["invoke"] = inv
				}
				exec(model.Op{Kind: model.OpRegister, P: p, Req: g.nextReq(p), URI: uri, Opts: opts})
			case x < 56:
				regs := run.Mon.Registrations()
				op := model.Op{Kind: model.OpUnregister, P: p, Req: g.nextReq(p)}
				if len(regs) > 0 && chance(r, 85) {
					rg := pick(r, regs)
					if chance(r, 65) && len(rg.Members) > 0 {
						op.P = pick(r, rg.Members)
						op.Req = g.nextReq(op.P)
					} else {
						refused++
					}
					op.Target = model.Ref{Kind: "reg", Topic: rg.URI, Match: rg.Policy}
				} else {
					op.Target = model.Ref{Kind: "raw", Raw: uint64(100 + r.IntN(50))}
					refused++
				}
				exec(op)
			case x < 64:
				if len(run.W.Puppets) < 10 {
					join()
				}
			case x < 72:
				if p <= 1 && chance(r, 70) {
					continue // keep observers most of the time
				}
				exec(model.Op{Kind: model.OpLeave, P: p, How: pick(r, []string{model.LeaveGoodbye, model.LeaveDrop, model.LeaveViolation})})
			case x < 84:
				killer := pick(r, al)
				kw := map[string]any{}
				if chance(r, 50) {
					kw["reason"] = pick(r, []string{"com.myapp.kicked", "wamp.close.normal", "bad reason", "wamp.close.system_shutdown", "wamp.close.goodbye_and_out", "wamp.error.system_shutdown"})
				}
				if chance(r, 30) {
					kw["message"] = "bye"
				}
				op := model.Op{Kind: model.OpMetaCall, P: killer, Req: g.nextReq(killer), Kw: kw}
				switch r.IntN(8) {
				case 0, 1, 2, 3:
					op.URI = "wamp.session.kill"
					tgt := r.IntN(len(run.W.Puppets))
					if tgt <= 1 && chance(r, 70) {
						tgt = len(run.W.Puppets) - 1
					}
					op.Args = []any{model.Ref{Kind: "sid", P: tgt}}
					if chance(r, 10) {
						op.Args = []any{model.Ref{Kind: "raw", Raw: 12345}}
					}
				case 4, 5:
					op.URI = "wamp.session.kill_by_authid"
					op.Args = []any{pick(r, authIDs)}
				case 6:
					op.URI = "wamp.session.kill_by_authrole"
					op.Args = []any{pick(r, []string{"guest", "user", "anonymous", "nobody"})}
				default:
					op.URI = "wamp.session.kill_all"
				}
				kills++
				exec(op)
			case x < 87:
				// testament recipe: both scopes populated, one flushed, then the session ends
				if p <= 1 {
					continue
				}
				for _, sc := range []string{"destroyed", "detached"} {
					args, _ := g.payload()
					if args == nil {
						args = []any{}
					}
					exec(model.Op{Kind: model.OpMetaCall, P: p, Req: g.nextReq(p), URI: "wamp.session.add_testament",
						Args: []any{pick(r, poolTopics), args, map[string]any{}}, Kw: map[string]any{"scope": sc}})
				}
				if chance(r, 80) {
					exec(model.Op{Kind: model.OpMetaCall, P: p, Req: g.nextReq(p), URI: "wamp.session.flush_testaments", Kw: map[string]any{"scope": pick(r, []string{"destroyed", "detached"})}})
				}
				exec(model.Op{Kind: model.OpLeave, P: p, How: pick(r, []string{model.LeaveGoodbye, model.LeaveDrop})})
			case x < 92:
				// testaments
				op := model.Op{Kind: model.OpMetaCall, P: p, Req: g.nextReq(p)}
				if chance(r, 70) {
					args, kw := g.payload()
					op.URI = "wamp.session.add_testament"
					op.Args = []any{pick(r, poolTopics), args, kw}
					if args == nil {
						op.Args[1] = []any{}
					}
					if kw == nil {
						op.Args[2] = map[string]any{}
					}
					op.Kw = map[string]any{}
					if chance(r, 40) {
						op.Kw["scope"] = pick(r, []string{"destroyed", "detached", "bogus"})
					}
					if chance(r, 30) {
						op.Kw["publish_options"] = map[string]any{"exclude_authrole": []any{pick(r, authRoles)}}
					} else if chance(r, 15) {
						// the testament is to be published in payload passthru mode (the realm's meta session publishes it)
						op.Kw["publish_options"] = map[string]any{"ppt_scheme": "x_custom", "ppt_serializer": "native", "ppt_keyid": "k"}
					}
				} else {
					op.URI = "wamp.session.flush_testaments"
					if chance(r, 50) {
						op.Kw = map[string]any{"scope": pick(r, []string{"destroyed", "detached"})}
					}
				}
				exec(op)
			default:
				exec(model.Op{Kind: model.OpAdvance, D: time.Second})
			}
			metaQuery()
		}
		c.NT = refused > 0 && kills > 0
		c.Add("steps", float64(run.Steps))
		c.Add("farewell_lost", float64(run.Mon.FarewellLost))
		run.Finish()
	})
	if panicText != "" {
		c.Fail("RB1", "bubble panic: "+firstLine(panicText), "%s", panicText)
	}
	var sb strings.Builder
	for _, ps := range setups {
		sb.WriteString(ps.String() + ";")
	}
	c.Key = fmt.Sprintf("strict=%v|%s|%s", realm.Strict, sb.String(), strings.Join(script, "\n"))
	if c.Index < 3 || len(c.Viol) > 0 {
		c.Sample = map[string]any{"realm": fmt.Sprintf("strict=%v meta_strict=%v", realm.Strict, realm.MetaStrict), "sessions": puppetStrings(setups), "script": clip(script, 90)}
	}
}
