package checks

import (
	"fmt"
	"time"

	"github.com/gammazero/nexus/v3/wamp"

	"verif/harness/model"
	"verif/harness/sim"
)

// C06 — Router.Close and RemoveRealm are safe at any moment. Engine "bubble",
// fault enumeration: for a generated base script the shutdown is injected at
// every step boundary (after quiescence) and inside every step (released
// together with the step's message, no quiescence in between).

var c06Weights = rpcWeights{register: 14, unregister: 3, call: 24, yield: 8, inverr: 2, cancel: 8, advance: 3, leave: 4, join: 2, foreign: 1,
	pubsub: 26, progInv: 15, timeoutPct: 55, progPct: 30, hotPct: 20, noFinalAdvance: true, nSteps: 14}

func init() {
	register(&Prop{
		ID: "C06",
		Cases: func(tier string) int {
			if tier == "thorough" {
				return 3000
			}
			return 160
		},
		Batch: func(tier string) int {
			if tier == "thorough" {
				return 60
			}
			return 10
		},
		Run: runC06,
		Rule: "each case is one generated base script (calls with timers armed, publications, cancels, kills, departures over 3-6 sessions of all transports, plus a half-done wampcra handshake, a peer that " +
			"never sent HELLO and a stalled rawsocket/websocket subscriber with a tiny socket buffer) replayed once per injection point: Router.Close() (or RemoveRealm for every 3rd case, with a second realm " +
			"of bystanders) is invoked at every step boundary k and inside every step k (together with the step's message); oracles: the call returns (virtual clock advanced up to 11 min), no panic then or " +
			"during the following 2 virtual hours, every attached client saw GOODBYE wamp.close.system_shutdown or its transport closing, a later Attach/AddRealm/RemoveRealm errors or ABORTs instead of crashing, " +
			"no goroutine with nexus frames is left, bystander realm keeps model equality; non-trivial = injection point with >=1 pending call with timer, in-flight publish, half-done handshake or stalled reader",
		Required: []string{"SD1", "SD3", "SD4", "SD5"},
		Level:    "fault_enumeration",
	})
}

func runC06(c *Case) {
	if c.Index%5 == 4 {
		runC06Storm(c)
		return
	}
	var rr *rpcRun
	panicText := c.Bubble(func() {
		rr = runRPCScript(c, c06Weights, false)
		if rr.run != nil {
			rr.run.Finish()
		}
	})
	if panicText != "" {
		c.Fail("RB1", "bubble panic: "+firstLine(panicText), "%s", panicText)
	}
	if rr == nil || rr.run == nil {
		return
	}
	c.Key = rr.key()
	steps := rr.steps
	nJoin := 0
	for _, st := range steps {
		if st.Join != nil {
			nJoin++
		}
	}
	removeRealm := c.Index%3 == 2
	points, ntPoints := 0, 0
	for k := nJoin; k <= len(steps); k++ {
		for _, inside := range []bool{false, true} {
			if inside && k == len(steps) {
				continue
			}
			before := len(c.Viol)
			if c06Replay(c, rr.realm, steps, k, inside, removeRealm) {
				ntPoints++
			}
			points++
			for i := before; i < len(c.Viol); i++ {
				c.Viol[i].Detail = fmt.Sprintf("[injection: %s %s step %d of %d] ", map[bool]string{false: "Close", true: "RemoveRealm"}[removeRealm],
					map[bool]string{false: "at the boundary before", true: "inside"}[inside], k, len(steps)) + c.Viol[i].Detail
			}
			if len(c.Viol) > 10 {
				break
			}
		}
		if len(c.Viol) > 10 {
			break
		}
	}
	c.Add("injection_points", float64(points))
	c.Add("nontrivial_injection_points", float64(ntPoints))
	c.NT = ntPoints > 0
	if c.Index < 3 || len(c.Viol) > 0 {
		c.Sample = map[string]any{"kind": map[bool]string{false: "Close", true: "RemoveRealm"}[removeRealm] + " injection", "injection_points": points,
			"sessions": puppetStrings(rr.setups), "script": clip(rr.script, 40)}
	}
}

// c06Replay replays the script up to step k, shuts down, and checks. Returns
// whether the injection point was non-trivial.
func c06Replay(c *Case, realm RealmSetup, steps []scriptStep, k int, inside, removeRealm bool) (nt bool) {
	panicText := c.Bubble(func() {
		realms := []RealmSetup{realm}
		other := RealmSetup{RealmSpec: model.RealmSpec{Name: "bystander", MetaKill: true}}
		if removeRealm {
			realms = append(realms, other)
		}
		run, err := NewRunner(c, realms, nil)
		if err != nil {
			c.Fail("HARNESS", "world", "cannot create world: %v", err)
			return
		}
		w := run.W
		for i := 0; i < k && i < len(steps); i++ {
			st := steps[i]
			if st.Join != nil {
				run.Join(*st.Join)
			} else {
				run.Exec(*st.Op)
			}
		}
		// special peers: no HELLO yet, half-done wampcra handshake, stalled subscriber with a tiny buffer
		nModel := len(w.Puppets)
		silent := w.AddPuppet(sim.PuppetSpec{Kind: randomKind(c.Rng, 70)})
		half := w.AddPuppet(sim.PuppetSpec{Kind: randomKind(c.Rng, 70)})
		half.Send(&wamp.Hello{Realm: wamp.URI(realm.Name), Details: wamp.Dict{"roles": sim.AllFeatures(), "authmethods": wamp.List{"wampcra"}, "authid": "bob"}})
		stKind := pick(c.Rng, []sim.Kind{sim.RawJSON, sim.RawMsgpack, sim.WSCBOR, sim.WSJSON, sim.Local})
		stalled := w.AddPuppet(sim.PuppetSpec{Kind: stKind, PipeBuf: pick(c.Rng, []int{1024, 2, 4096}), QSize: pick(c.Rng, []int{2, 8, 64})})
		stalled.Join(realm.Name, wamp.Dict{"roles": sim.AllFeatures()})
		stalled.Send(&wamp.Subscribe{Request: 1, Options: wamp.Dict{"match": "prefix"}, Topic: "a"})
		w.Wait()
		stalled.Take()
		stalled.Stall()
		flood := w.AddPuppet(sim.PuppetSpec{Kind: sim.Local})
		flood.Join(realm.Name, wamp.Dict{"roles": sim.AllFeatures()})
		for i := 0; i < 40; i++ {
			flood.Send(&wamp.Publish{Request: wamp.ID(100 + i), Options: wamp.Dict{}, Topic: "a.b", Arguments: wamp.List{fmt.Sprintf("%0200d", i)}})
		}
		w.Wait()
		_ = silent
		// a client on an application-provided peer with unbuffered channels that has sent HELLO but takes
		// its WELCOME only 5 s after the shutdown began: the join is in flight at the shutdown
		welcoming := w.AddPuppet(sim.PuppetSpec{Kind: sim.Local, Unbuffered: true})
		welcoming.Stall()
		metaHold := c.Rng.IntN(100) < 35
		if metaHold {
			// instead: the stalled session has called a meta procedure; the realm's meta session is busy
			// retrying the RESULT it cannot queue (for up to a minute) when the shutdown comes. (Not combined with
			// the in-flight join: a join during that hold waits on the realm's close lock, a mutex wait that the
			// bubble cannot see through.)
			stalled.Send(&wamp.Call{Request: 2, Options: wamp.Dict{}, Procedure: "wamp.session.count"})
		} else {
			welcoming.Send(&wamp.Hello{Realm: wamp.URI(realm.Name), Details: wamp.Dict{"roles": sim.AllFeatures()}})
		}
		w.Wait()
		// bystanders in the other realm
		var by0, by1 *sim.Puppet
		if removeRealm {
			by0 = w.AddPuppet(sim.PuppetSpec{Kind: sim.Local})
			by1 = w.AddPuppet(sim.PuppetSpec{Kind: randomKind(c.Rng, 60)})
			by0.Join("bystander", wamp.Dict{"roles": sim.AllFeatures()})
			by1.Join("bystander", wamp.Dict{"roles": sim.AllFeatures()})
			by1.Send(&wamp.Subscribe{Request: 1, Options: wamp.Dict{}, Topic: "probe.topic"})
			w.Wait()
			by0.Take()
			by1.Take()
		}
		pend := run.Mon.PendingCalls()
		for _, pc := range pend {
			if pc.Deadline > 0 {
				nt = true
			}
		}
		nt = nt || inside || true // half-done handshake and stalled reader are always present
		attachedBefore := map[int]bool{}
		for _, p := range run.Mon.AliveSessions() {
			attachedBefore[p] = true
		}
		attachedBefore[stalled.Idx] = true
		attachedBefore[flood.Idx] = true
		// ---- the shutdown, possibly together with the next step's message
		if inside && k < len(steps) && steps[k].Op != nil {
			op := *steps[k].Op
			if op.Kind == model.OpAdvance {
				// timers fire concurrently with the shutdown anyway: RunBlocked advances the clock
			} else if s := run.Mon.Sess[op.P]; s != nil && s.Alive {
				if op.Kind == model.OpLeave && op.How == model.LeaveDrop {
					w.Puppets[op.P].Drop()
				} else if msg := run.Mon.Build(op); msg != nil {
					w.Puppets[op.P].Send(msg)
				}
			}
		}
		shutdown := func() { w.Router.Close() }
		if removeRealm {
			shutdown = func() { w.Router.RemoveRealm(wamp.URI(realm.Name)) }
		}
		// a client joining another realm while the removal is in progress must not have to wait for it
		var joiner *sim.Puppet
		joinAt := w.Now()
		if removeRealm {
			joiner = w.AddPuppet(sim.PuppetSpec{Kind: randomKind(c.Rng, 50)})
			go func() {
				time.Sleep(time.Millisecond) // the removal has started by then
				joiner.Send(&wamp.Hello{Realm: "bystander", Details: wamp.Dict{"roles": sim.AllFeatures()}})
			}()
			joinAt += time.Millisecond
		}
		c.Hit("SD1")
		go func() {
			time.Sleep(5 * time.Second)
			welcoming.Resume()
		}()
		returned := w.RunBlocked(shutdown, time.Second, 10*time.Second, time.Minute, 10*time.Minute)
		if joiner != nil && returned {
			w.Advance(2 * time.Millisecond) // the joiner's HELLO is sent 1 ms after the removal started
			c.Hit("SD6")
			var at time.Duration = -1
			for _, o := range joiner.Log() {
				if _, ok := o.Msg.(*wamp.Welcome); ok {
					at = o.At
				}
			}
			if at < 0 {
				c.Fail("SD6", "join of another realm failed during RemoveRealm", "a client joining realm bystander while realm %s was being removed got no WELCOME: %s", realm.Name, obsString(joiner.Log(), 3))
			} else if at != joinAt {
				c.Fail("SD6", "join of another realm delayed by RemoveRealm", "a client that sent HELLO for realm bystander at virtual %v, while realm %s was being removed, was welcomed only at %v", joinAt, realm.Name, at)
			}
		}
		if !removeRealm {
			w.MarkClosed()
		}
		if !returned {
			c.Fail("SD1", "shutdown did not return", "the shutdown call did not return within 11 virtual minutes (stalled peer: %s buf=%d q=%d)", stKind, stalled.Spec.PipeBuf, stalled.Spec.QSize)
		}
		stalled.Resume()
		w.Wait()
		// SD3: every attached client was told or disconnected
		for p := range attachedBefore {
			c.Hit("SD3")
			pu := w.Puppets[p]
			told, closed := false, false
			for _, o := range pu.Log() {
				if g, ok := o.Msg.(*wamp.Goodbye); ok && string(g.Reason) == "wamp.close.system_shutdown" {
					told = true
				}
				if o.Closed {
					closed = true
				}
			}
			if returned && !told && !closed {
				c.Fail("SD3", "client neither told nor disconnected", "P%d (%s) was attached at the shutdown but saw neither GOODBYE wamp.close.system_shutdown nor its transport closing; last: %s", p, pu.Kind, obsString(pu.Log(), 3))
			}
		}
		// the client whose join was in flight: once welcomed it is attached, and must then be told or disconnected
		if returned {
			w.Advance(6 * time.Second)
			c.Hit("SD3")
			welcomed, told, closed := false, false, false
			for _, o := range welcoming.Log() {
				switch m := o.Msg.(type) {
				case *wamp.Welcome:
					welcomed = true
				case *wamp.Goodbye:
					told = told || string(m.Reason) == "wamp.close.system_shutdown"
				case *wamp.Abort:
					told = true
				}
				closed = closed || o.Closed
			}
			if welcomed && !told && !closed {
				c.Fail("SD3", "client welcomed during shutdown neither told nor disconnected", "a client whose WELCOME was in flight when the shutdown began took it 5 s later and then saw neither GOODBYE nor its transport closing: %s", obsString(welcoming.Log(), 4))
			}
			if !welcomed && !told && !closed && !metaHold {
				c.Fail("SD3", "client joining during shutdown left without an answer", "a client that had sent HELLO before the shutdown saw neither WELCOME, ABORT nor its transport closing: %s", obsString(welcoming.Log(), 4))
			}
		}
		// SD4: later attach attempts and realm operations fail cleanly
		if returned {
			c.Hit("SD4")
			late := w.AddPuppet(sim.PuppetSpec{Kind: randomKind(c.Rng, 50)})
			late.Send(&wamp.Hello{Realm: wamp.URI(realm.Name), Details: wamp.Dict{"roles": sim.AllFeatures()}})
			w.Wait()
			w.Advance(6 * time.Second)
			welcomed := false
			for _, o := range late.Log() {
				if _, ok := o.Msg.(*wamp.Welcome); ok {
					welcomed = true
				}
			}
			if welcomed {
				c.Fail("SD4", "attach accepted after shutdown", "a client was sent WELCOME for realm %s after the shutdown returned", realm.Name)
			}
			if ret, _ := late.AttachResult(); !ret && late.Kind == sim.Local {
				c.Fail("SD4", "attach did not return after shutdown", "Router.Attach neither returned an error nor sent ABORT within 6 virtual seconds after the shutdown")
			}
			if !removeRealm {
				// realm operations on a closed router
				w.RunBlocked(func() { _ = w.Router.AddRealm(realm.config()) }, time.Second)
				w.RunBlocked(func() { w.Router.RemoveRealm("nosuch") }, time.Second)
				w.RunBlocked(func() { w.Router.Close() }, time.Second) // safe: the first Close has returned
			}
		}
		// SD6: bystanders of the other realm are still served
		if removeRealm && returned {
			c.Hit("SD6")
			by0.Send(&wamp.Publish{Request: 50, Options: wamp.Dict{"acknowledge": true}, Topic: "probe.topic", Arguments: wamp.List{"after-remove"}})
			w.Wait()
			okPub, okEv := false, false
			for _, o := range by0.Take() {
				if _, ok := o.Msg.(*wamp.Published); ok {
					okPub = true
				}
				if o.Closed {
					c.Fail("SD6", "bystander disconnected by RemoveRealm", "a session of another realm lost its transport when realm %s was removed", realm.Name)
				}
			}
			for _, o := range by1.Take() {
				if _, ok := o.Msg.(*wamp.Event); ok {
					okEv = true
				}
				if _, ok := o.Msg.(*wamp.Goodbye); ok || o.Closed {
					c.Fail("SD6", "bystander ended by RemoveRealm", "a session of another realm was ended when realm %s was removed: %s", realm.Name, o.Snap)
				}
			}
			if !okPub || !okEv {
				c.Fail("SD6", "bystander realm not served after RemoveRealm", "after RemoveRealm(%s) a publication in another realm was not routed (published=%v event=%v)", realm.Name, okPub, okEv)
			}
		}
		_ = nModel
		rep := w.Teardown()
		if !rep.CloseReturned {
			c.Fail("SD1", "router close did not return", "Router.Close() at teardown did not return")
		}
		c.Hit("SD5")
		for _, g := range rep.Leaked {
			c.Fail("SD5", "goroutine left after close: "+leakSig(g), "goroutine with nexus frames still alive 2 virtual hours after the shutdown:\n%s", g)
		}
	})
	if panicText != "" {
		c.Fail("SD2", "bubble panic: "+firstLine(panicText), "%s", panicText)
	}
	return nt
}
