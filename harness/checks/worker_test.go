package checks

import "testing"

// TestWorker is the entry point used by /verif/vcheck (see framework.go).
func TestWorker(t *testing.T) { runWorker(t) }
