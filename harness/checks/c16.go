package checks

import (
	"context"
	"errors"
	"fmt"
	"sort"
	"strings"
	"sync"
	"testing/synctest"
	"time"

	"github.com/gammazero/nexus/v3/client"
	"github.com/gammazero/nexus/v3/wamp"

	"verif/harness/canon"
)

// C16 — client calls return their own reply, once, and honour cancellation.
// Engine "bubble": the real client.Client against a scripted router that
// answers with the request's token, in adversarial order, duplicated, and
// delayed relative to the client's response timeout in virtual time.

func init() {
	register(&Prop{
		ID: "C16", Cases: rpcCases(1200, 30000), Batch: rpcBatch,
		Run: runC16,
		Rule: "each case: one client.Client (response timeout 100 ms..5 s virtual) used by 1/4/16/48 goroutines; 3 rounds of concurrent Subscribe/Unsubscribe/Register/Unregister/Publish(ack)/Call/" +
			"Call-with-progress/Call-with-cancelled-context; the scripted router answers each request with a token derived from its request id, in permuted order, with duplicates and replies for " +
			"unknown ids, delayed by 0, timeout-1ms, timeout, timeout+1ms; then INVOCATION/INTERRUPT/EVENT sequences (duplicates, stale ids, interrupts) for registered handlers; oracles by token equality " +
			"and virtual timestamps: own reply, reply-before-timeout returned, timeout after, progress order and none after return, exactly one CANCEL with the configured mode and the context's error, " +
			"one handler run and one YIELD/ERROR per invocation, context cancelled on INTERRUPT, serial in-order event handlers; non-trivial = >=2 replies delivered in an order different from the " +
			"request order, or a cancel/timeout coinciding with a reply",
		Required: []string{"CL1", "CL2", "CL3", "CL4", "CL5", "CL6", "CL7", "CL11", "CL12", "CL13", "CL14"},
		Level:    "exploration",
	})
}

type c16Op struct {
	g      int
	kind   string
	name   string // topic / procedure
	req    uint64 // request id seen at the router
	delay  time.Duration
	answer string // "ok", "error", "none"
	// outcome
	returned   bool
	err        error
	result     *wamp.Result
	retAt      time.Duration
	callAt     time.Duration
	progress   []int
	progAfter  bool
	cancelAt   time.Duration
	wantCancel bool
}

func runC16(c *Case) {
	r := c.Rng
	tmo := pick(r, []time.Duration{100 * time.Millisecond, time.Second, 5 * time.Second})
	G := pick(r, []int{1, 4, 16, 48})
	cancelMode := pick(r, []string{"", "kill", "killnowait", "skip"})
	reordered, coincided := 0, 0
	var script []string
	panicText := c.Bubble(func() {
		w := newClientWorld(c, tmo, 0)
		if w == nil {
			return
		}
		if cancelMode != "" {
			_ = w.cli.SetCallCancelMode(cancelMode)
		}
		wantMode := cancelMode
		if wantMode == "" {
			wantMode = "killnowait"
		}
		var mu sync.Mutex
		cancelsSeen := map[uint64][]string{}
		noCancelReply := map[uint64]bool{} // calls whose CANCEL the router leaves unanswered
		// the dealer's answer to a CANCEL: the call ends with wamp.error.canceled
		w.rtr.SetAuto(func(m wamp.Message) []wamp.Message {
			x, ok := m.(*wamp.Cancel)
			if !ok {
				return nil
			}
			md, _ := canon.AsStr(x.Options["mode"])
			mu.Lock()
			cancelsSeen[uint64(x.Request)] = append(cancelsSeen[uint64(x.Request)], md)
			silent := noCancelReply[uint64(x.Request)]
			mu.Unlock()
			if silent {
				return nil
			}
			return []wamp.Message{&wamp.Error{Type: wamp.CALL, Request: x.Request, Details: wamp.Dict{}, Error: "wamp.error.canceled"}}
		})
		subs := map[string]bool{}
		regs := map[string]bool{}
		handlerRuns := map[uint64]int{} // invocation request id -> handler entries
		handlerCtxDone := map[uint64]bool{}
		chunkGate := make(chan struct{})
		var chunksSeen []int
		wedged := false
		var evOrder []int
		evOverlap := false
		evActive := 0
		for round := 0; round < 3; round++ {
			ops := make([]*c16Op, G)
			var wg sync.WaitGroup
			for g := 0; g < G; g++ {
				op := &c16Op{g: g}
				ops[g] = op
				kinds := []string{"subscribe", "register", "publish", "call", "callprog", "callcancel", "subscribe", "register", "publish", "call", "callprog", "callcancel", "callprogslow", "callcancelstream", "callprogressive", "callprogressive"}
				mu.Lock()
				if len(subs) > 0 {
					kinds = append(kinds, "unsubscribe")
				}
				if len(regs) > 0 {
					kinds = append(kinds, "unregister")
				}
				op.kind = pick(r, kinds)
				switch op.kind {
				case "unsubscribe":
					for k := range subs {
						op.name = k
						break
					}
					delete(subs, op.name)
				case "unregister":
					for k := range regs {
						op.name = k
						break
					}
					delete(regs, op.name)
				default:
					op.name = fmt.Sprintf("n.r%d.g%d", round, g)
				}
				mu.Unlock()
				op.delay = pick(r, []time.Duration{0, 0, 0, tmo / 2, tmo - time.Millisecond, tmo, tmo + time.Millisecond})
				op.answer = pick(r, []string{"ok", "ok", "ok", "ok", "error", "none"})
				if op.kind == "callcancel" {
					op.cancelAt = pick(r, []time.Duration{0, time.Millisecond, tmo / 2})
					if op.delay >= tmo {
						op.delay = tmo / 2
					}
				}
				if op.kind == "callprogslow" {
					// one progressive result 1 ms before the context's deadline, a handler that takes 5 ms, no final result
					op.answer, op.delay = "none", tmo-time.Millisecond
				}
				if op.kind == "callcancelstream" {
					// cancelled at T/2; the router does not answer the CANCEL but keeps streaming progressive results
					op.answer, op.delay, op.cancelAt = "none", 0, tmo/2
				}
			}
			for _, op := range ops {
				op := op
				wg.Add(1)
				go func() {
					defer wg.Done()
					op.callAt = w.Now()
					switch op.kind {
					case "subscribe":
						op.err = w.cli.Subscribe(op.name, func(ev *wamp.Event) {
							mu.Lock()
							evActive++
							if evActive > 1 {
								evOverlap = true
							}
							if len(ev.Arguments) > 0 {
								n, _ := canon.AsID(ev.Arguments[0])
								evOrder = append(evOrder, int(n))
							}
							mu.Unlock()
							time.Sleep(time.Millisecond)
							mu.Lock()
							evActive--
							mu.Unlock()
						}, nil)
					case "unsubscribe":
						op.err = w.cli.Unsubscribe(op.name)
					case "register":
						op.err = w.cli.Register(op.name, func(ctx context.Context, inv *wamp.Invocation) client.InvokeResult {
							mu.Lock()
							handlerRuns[uint64(inv.Request)]++
							mu.Unlock()
							mode := ""
							if len(inv.Arguments) > 0 {
								mode, _ = canon.AsStr(inv.Arguments[0])
							}
							if mode == "wait" {
								<-ctx.Done()
								mu.Lock()
								handlerCtxDone[uint64(inv.Request)] = true
								mu.Unlock()
								return client.InvocationCanceled
							}
							if mode == "waitok" {
								// a handler that reacts to the cancellation by returning an ordinary result
								<-ctx.Done()
								mu.Lock()
								handlerCtxDone[uint64(inv.Request)] = true
								mu.Unlock()
								return client.InvokeResult{Args: wamp.List{"partial", inv.Request}}
							}
							if mode == "chunks" {
								// a progressive call: the chunk number is the second argument; the first chunk is slow
								n := -1
								if len(inv.Arguments) > 1 {
									k, _ := canon.AsID(inv.Arguments[1])
									n = int(k)
								}
								if n == 0 {
									<-chunkGate
								}
								mu.Lock()
								chunksSeen = append(chunksSeen, n)
								mu.Unlock()
								if pr, _ := inv.Details["progress"].(bool); pr {
									return client.InvokeResult{Err: wamp.InternalProgressiveOmitResult}
								}
								return client.InvokeResult{Args: wamp.List{"chunks-done"}}
							}
							return client.InvokeResult{Args: wamp.List{"handled", inv.Request}}
						}, nil)
					case "unregister":
						op.err = w.cli.Unregister(op.name)
					case "publish":
						op.err = w.cli.Publish(op.name, wamp.Dict{"acknowledge": true}, wamp.List{"p"}, nil)
					case "call":
						ctx, cancel := context.WithTimeout(context.Background(), tmo)
						op.result, op.err = w.cli.Call(ctx, op.name, nil, wamp.List{op.name}, nil, nil)
						cancel()
					case "callprog":
						done := false
						ctx, cancel := context.WithTimeout(context.Background(), tmo)
						defer cancel()
						op.result, op.err = w.cli.Call(ctx, op.name, nil, wamp.List{op.name}, nil, func(res *wamp.Result) {
							mu.Lock()
							if done {
								op.progAfter = true
							}
							if len(res.Arguments) > 1 {
								n, _ := canon.AsID(res.Arguments[1])
								op.progress = append(op.progress, int(n))
							}
							mu.Unlock()
						})
						mu.Lock()
						done = true
						mu.Unlock()
					case "callprogressive":
						// CallProgressive: the call's input is sent in 3 chunks (same request id), results as for callprog
						done, sent := false, 0
						ctx, cancel := context.WithTimeout(context.Background(), tmo)
						defer cancel()
						sendProg := func(context.Context) (wamp.Dict, wamp.List, wamp.Dict, error) {
							sent++
							return wamp.Dict{"progress": sent < 3}, wamp.List{op.name, sent}, nil, nil
						}
						op.result, op.err = w.cli.CallProgressive(ctx, op.name, sendProg, func(res *wamp.Result) {
							mu.Lock()
							if done {
								op.progAfter = true
							}
							if len(res.Arguments) > 1 {
								n, _ := canon.AsID(res.Arguments[1])
								op.progress = append(op.progress, int(n))
							}
							mu.Unlock()
						})
						mu.Lock()
						done = true
						mu.Unlock()
					case "callprogslow":
						done, active := false, 0
						ctx, cancel := context.WithTimeout(context.Background(), tmo)
						defer cancel()
						op.result, op.err = w.cli.Call(ctx, op.name, nil, wamp.List{op.name}, nil, func(res *wamp.Result) {
							mu.Lock()
							if done {
								op.progAfter = true
							}
							active++
							mu.Unlock()
							time.Sleep(5 * time.Millisecond)
							mu.Lock()
							active--
							if done {
								op.progAfter = true
							}
							mu.Unlock()
						})
						mu.Lock()
						if active > 0 {
							op.progAfter = true
						}
						done = true
						mu.Unlock()
					case "callcancel", "callcancelstream":
						ctx, cancel := context.WithCancel(context.Background())
						go func() {
							time.Sleep(op.cancelAt)
							cancel()
						}()
						var progcb client.ProgressHandler
						if op.kind == "callcancelstream" {
							progcb = func(*wamp.Result) {}
						}
						op.result, op.err = w.cli.Call(ctx, op.name, nil, wamp.List{op.name}, nil, progcb)
						cancel()
					}
					op.retAt = w.Now()
					op.returned = true
				}()
			}
			synctest.Wait()
			t0 := w.Now()
			// ---- the router's view: map requests to ops by name
			byName := map[string]*c16Op{}
			for _, op := range ops {
				byName[op.kind+"|"+op.name] = op
			}
			type reply struct {
				at  time.Duration
				msg wamp.Message
				op  *c16Op
			}
			var plan []reply
			var order []uint64
			for _, m := range w.rtr.Take() {
				var op *c16Op
				var req uint64
				switch x := m.Msg.(type) {
				case *wamp.Subscribe:
					op, req = byName["subscribe|"+string(x.Topic)], uint64(x.Request)
				case *wamp.Unsubscribe:
					req = uint64(x.Request)
					for _, o := range ops {
						if o.kind == "unsubscribe" && o.req == 0 && 7000+nameID(o.name) == uint64(x.Subscription) {
							op = o
							break
						}
					}
				case *wamp.Register:
					op, req = byName["register|"+string(x.Procedure)], uint64(x.Request)
				case *wamp.Unregister:
					req = uint64(x.Request)
					for _, o := range ops {
						if o.kind == "unregister" && o.req == 0 && 8000+nameID(o.name) == uint64(x.Registration) {
							op = o
							break
						}
					}
				case *wamp.Publish:
					op, req = byName["publish|"+string(x.Topic)], uint64(x.Request)
				case *wamp.Call:
					req = uint64(x.Request)
					for _, k := range []string{"call", "callprog", "callcancel", "callprogslow", "callcancelstream", "callprogressive"} {
						if o := byName[k+"|"+string(x.Procedure)]; o != nil {
							op = o
						}
					}
				case *wamp.Cancel:
					continue
				}
				if op == nil {
					continue
				}
				if op.kind == "callprogressive" && op.req == req {
					continue // a further chunk of the same call
				}
				op.req = req
				order = append(order, req)
				tok := fmt.Sprintf("tok<%d>", req)
				var ok, er wamp.Message
				switch op.kind {
				case "subscribe":
					ok = &wamp.Subscribed{Request: wamp.ID(req), Subscription: wamp.ID(7000 + nameID(op.name))}
					er = &wamp.Error{Type: wamp.SUBSCRIBE, Request: wamp.ID(req), Details: wamp.Dict{}, Error: "wamp.error.not_authorized", Arguments: wamp.List{tok}}
				case "unsubscribe":
					ok = &wamp.Unsubscribed{Request: wamp.ID(req)}
					er = &wamp.Error{Type: wamp.UNSUBSCRIBE, Request: wamp.ID(req), Details: wamp.Dict{}, Error: "wamp.error.no_such_subscription", Arguments: wamp.List{tok}}
				case "register":
					ok = &wamp.Registered{Request: wamp.ID(req), Registration: wamp.ID(8000 + nameID(op.name))}
					er = &wamp.Error{Type: wamp.REGISTER, Request: wamp.ID(req), Details: wamp.Dict{}, Error: "wamp.error.procedure_already_exists", Arguments: wamp.List{tok}}
				case "unregister":
					ok = &wamp.Unregistered{Request: wamp.ID(req)}
					er = &wamp.Error{Type: wamp.UNREGISTER, Request: wamp.ID(req), Details: wamp.Dict{}, Error: "wamp.error.no_such_registration", Arguments: wamp.List{tok}}
				case "publish":
					ok = &wamp.Published{Request: wamp.ID(req), Publication: wamp.ID(req + 100000)}
					er = &wamp.Error{Type: wamp.PUBLISH, Request: wamp.ID(req), Details: wamp.Dict{}, Error: "wamp.error.not_authorized", Arguments: wamp.List{tok}}
				default:
					ok = &wamp.Result{Request: wamp.ID(req), Details: wamp.Dict{}, Arguments: wamp.List{tok}}
					er = &wamp.Error{Type: wamp.CALL, Request: wamp.ID(req), Details: wamp.Dict{}, Error: "com.myapp.error", Arguments: wamp.List{tok}}
				}
				if op.kind == "callprogslow" {
					plan = append(plan, reply{op.delay, &wamp.Result{Request: wamp.ID(req), Details: wamp.Dict{"progress": true}, Arguments: wamp.List{tok, 1}}, nil})
				}
				if op.kind == "callcancelstream" {
					mu.Lock()
					noCancelReply[req] = true
					mu.Unlock()
					for k := 0; k <= 12; k++ {
						plan = append(plan, reply{time.Duration(k) * tmo / 3, &wamp.Result{Request: wamp.ID(req), Details: wamp.Dict{"progress": true}, Arguments: wamp.List{tok, k + 1}}, nil})
					}
				}
				if (op.kind == "callprog" || op.kind == "callprogressive") && op.answer != "none" {
					for k := 1; k <= 3; k++ {
						plan = append(plan, reply{op.delay / 2, &wamp.Result{Request: wamp.ID(req), Details: wamp.Dict{"progress": true}, Arguments: wamp.List{tok, k}}, nil})
					}
				}
				switch op.answer {
				case "ok":
					plan = append(plan, reply{op.delay, ok, op})
					if chance(r, 15) {
						plan = append(plan, reply{op.delay, ok, nil}) // duplicate
					}
				case "error":
					plan = append(plan, reply{op.delay, er, op})
				}
				if chance(r, 10) { // a reply nobody asked for
					plan = append(plan, reply{op.delay / 3, &wamp.Result{Request: wamp.ID(req + 50000), Details: wamp.Dict{}, Arguments: wamp.List{"foreign"}}, nil})
				}
			}
			// permute replies that share a delay
			r.Shuffle(len(plan), func(i, j int) { plan[i], plan[j] = plan[j], plan[i] })
			sort.SliceStable(plan, func(i, j int) bool { return plan[i].at < plan[j].at })
			// but progressive results of one call must stay in order and before its final
			fixProgressOrder(plan, func(p reply) (uint64, int, bool) {
				if res, ok := p.msg.(*wamp.Result); ok {
					if pr, _ := res.Details["progress"].(bool); pr && len(res.Arguments) > 1 {
						n, _ := canon.AsID(res.Arguments[1])
						return uint64(res.Request), int(n), true
					}
					return uint64(res.Request), 1 << 30, true
				}
				return 0, 0, false
			}, func(i, j int) { plan[i], plan[j] = plan[j], plan[i] })
			var sentOrder []uint64
			for _, p := range plan {
				if d := t0 + p.at - w.Now(); d > 0 {
					time.Sleep(d)
				}
				// CANCELs that arrived meanwhile are answered like a dealer would (skip semantics)
				w.rtr.Send(p.msg)
				if p.op != nil {
					sentOrder = append(sentOrder, p.op.req)
				}
			}
			synctest.Wait()
			time.Sleep(4 * tmo)
			synctest.Wait()
			c.Hit("CL9")
			if st := runLoopBlocked(); st != "" && !wedged {
				wedged = true
				c.Fail("CL9", "client receive loop blocked: "+leakSig(st), "round %d: 4 x timeout after the last reply the client's receive goroutine is still blocked outside its select loop, so no further message is processed:\n%s", round, st)
			}
			if fmt.Sprint(sentOrder) != fmt.Sprint(order[:min(len(order), len(sentOrder))]) && len(sentOrder) >= 2 {
				reordered++
			}
			// ---- judge
			for _, op := range ops {
				desc := fmt.Sprintf("round %d goroutine %d %s %q (request %d, reply %s after %v, timeout %v)", round, op.g, op.kind, op.name, op.req, op.answer, op.delay, tmo)
				if op.returned {
					desc += fmt.Sprintf(" [called at %v, returned at %v]", op.callAt, op.retAt)
				}
				script = append(script, desc)
				c.Hit("CL10")
				if !op.returned {
					c.Fail("CL10", "API call never returns: "+op.kind, "%s: still blocked 4 x timeout after the last reply\n%s", desc, clientStacks())
					continue
				}
				if op.req == 0 {
					continue // request never reached the router (e.g. ErrNotSubscribed)
				}
				tok := fmt.Sprintf("tok<%d>", op.req)
				inTime := op.delay < tmo
				atTie := op.delay == tmo
				if atTie {
					coincided++
				}
				switch {
				case op.kind == "callcancelstream":
					c.Hit("CL4")
					c.Hit("CL11")
					if op.err == nil {
						c.Fail("CL4", "cancelled call returned success", "%s: context cancelled after %v, CANCEL unanswered; Call returned %v", desc, op.cancelAt, op.result)
					}
					if d := op.retAt - op.callAt - op.cancelAt; d > tmo+3*time.Millisecond {
						c.Fail("CL11", "cancelled call waits longer than the response timeout for the answer to its CANCEL", "%s: the router left the CANCEL unanswered and kept sending progressive results every %v; Call returned %v after the cancellation (response timeout %v)", desc, tmo/3, d, tmo)
					}
					mu.Lock()
					modes := append([]string(nil), cancelsSeen[op.req]...)
					mu.Unlock()
					if len(modes) != 1 || modes[0] != wantMode {
						c.Fail("CL4", "CANCEL count or mode wrong", "%s: router saw CANCELs %v for the call, expected exactly one with mode %q", desc, modes, wantMode)
					}
				case op.kind == "callcancel":
					c.Hit("CL4")
					replyFirst := op.answer != "none" && op.delay < op.cancelAt
					if op.answer != "none" && op.delay == op.cancelAt {
						coincided++
						break // either outcome
					}
					if replyFirst {
						if op.answer == "ok" && (op.err != nil || op.result == nil || tokenOf(op.result.Arguments) != tok) {
							c.Fail("CL1", "call does not return its own result", "%s: the reply came before the cancellation; returned result=%v err=%v", desc, op.result, op.err)
						}
						break
					}
					if !errors.Is(op.err, context.Canceled) {
						c.Fail("CL4", "cancelled call does not return the context's error", "%s: context cancelled after %v; Call returned result=%v err=%v", desc, op.cancelAt, op.result, op.err)
					}
					mu.Lock()
					modes := append([]string(nil), cancelsSeen[op.req]...)
					mu.Unlock()
					if len(modes) != 1 || modes[0] != wantMode {
						c.Fail("CL4", "CANCEL count or mode wrong", "%s: router saw CANCELs %v for the call, expected exactly one with mode %q", desc, modes, wantMode)
					}
				case op.answer == "none" || (!inTime && !atTie):
					c.Hit("CL2")
					isCall := op.kind == "call" || op.kind == "callprog" || op.kind == "callprogslow" || op.kind == "callprogressive"
					if op.err == nil {
						c.Fail("CL2", "call returned success without a timely reply: "+op.kind, "%s: returned success", desc)
					} else if isCall {
						// the call's context (deadline = response timeout) expired: CANCEL, context's error
						c.Hit("CL4")
						if !errors.Is(op.err, context.DeadlineExceeded) {
							c.Fail("CL4", "expired call does not return the context's error", "%s: context deadline %v passed without a reply; Call returned %v", desc, tmo, op.err)
						}
						mu.Lock()
						modes := append([]string(nil), cancelsSeen[op.req]...)
						mu.Unlock()
						if len(modes) != 1 || modes[0] != wantMode {
							c.Fail("CL4", "CANCEL count or mode wrong", "%s: router saw CANCELs %v for the expired call, expected exactly one with mode %q", desc, modes, wantMode)
						}
					} else if !errors.Is(op.err, client.ErrReplyTimeout) {
						c.Fail("CL2", "no reply within the response timeout but the error is not the timeout: "+op.kind, "%s: returned %v", desc, op.err)
					}
					if op.retAt-op.callAt > tmo+5*time.Millisecond {
						c.Fail("CL10", "API call overstays its timeout: "+op.kind, "%s: returned after %v", desc, op.retAt-op.callAt)
					}
				case atTie && op.err != nil:
					// reply and timer coincide: the timeout won; it must have returned (checked above)
				case op.answer == "ok":
					c.Hit("CL1")
					c.Hit("CL2")
					if op.err != nil {
						c.Fail("CL2", "reply sent before the timeout but the call failed: "+op.kind, "%s: reply was sent %v after the request; returned error %v", desc, op.delay, op.err)
						break
					}
					switch op.kind {
					case "call", "callprog", "callprogressive":
						if op.result == nil || tokenOf(op.result.Arguments) != tok {
							c.Fail("CL1", "call returned another request's result", "%s: expected token %s, got %v", desc, tok, op.result)
						}
					case "subscribe":
						if id, ok := w.cli.SubscriptionID(op.name); !ok || uint64(id) != 7000+nameID(op.name) {
							c.Fail("CL1", "subscribe recorded another request's reply", "%s: SubscriptionID=%d ok=%v, the reply for this request carried %d", desc, id, ok, 7000+nameID(op.name))
						} else {
							mu.Lock()
							subs[op.name] = true
							mu.Unlock()
						}
					case "register":
						if id, ok := w.cli.RegistrationID(op.name); !ok || uint64(id) != 8000+nameID(op.name) {
							c.Fail("CL1", "register recorded another request's reply", "%s: RegistrationID=%d ok=%v, the reply for this request carried %d", desc, id, ok, 8000+nameID(op.name))
						} else {
							mu.Lock()
							regs[op.name] = true
							mu.Unlock()
						}
					}
				case op.answer == "error":
					c.Hit("CL1")
					if op.err == nil || !strings.Contains(op.err.Error(), tok) {
						c.Fail("CL1", "call returned another request's error", "%s: expected an error carrying %s, got %v", desc, tok, op.err)
					}
				}
				if op.kind == "callprogslow" {
					c.Hit("CL3")
					if op.progAfter {
						c.Fail("CL3", "progress handler still running or called after Call returned", "%s: a progressive result arrived 1 ms before the context's deadline and its handler takes 5 ms; Call returned (%v) while the handler was still running", desc, op.err)
					}
				}
				if op.kind == "callprogressive" {
					// what the router saw: chunks 1,2,3 of one request, in order, the last one without the progress flag
					c.Hit("CL14")
					var seq []string
					for _, m := range w.rtr.All() {
						if x, ok := m.Msg.(*wamp.Call); ok && uint64(x.Request) == op.req && len(x.Arguments) > 1 {
							k, _ := canon.AsID(x.Arguments[1])
							pr, _ := x.Options["progress"].(bool)
							seq = append(seq, fmt.Sprintf("%d:%v", k, pr))
						}
					}
					want := "1:true 2:true 3:false"
					got := strings.Join(seq, " ")
					// a call that ended early (error reply, expiry) may legitimately stop sending chunks
					if op.err == nil && got != want || !strings.HasPrefix(want, got) {
						c.Fail("CL14", "progressive call chunks lost, reordered or wrongly flagged", "%s: the router received chunks [%s] for the call, expected [%s] (a prefix of it if the call ended early); Call returned err=%v", desc, got, want, op.err)
					}
				}
				if (op.kind == "callprog" || op.kind == "callprogressive") && op.answer != "none" && inTime {
					c.Hit("CL3")
					if op.progAfter {
						c.Fail("CL3", "progress handler called after Call returned", "%s", desc)
					}
					if !sort.IntsAreSorted(op.progress) {
						c.Fail("CL3", "progressive results out of order", "%s: progress handler saw %v", desc, op.progress)
					}
					if op.err == nil && len(op.progress) != 3 {
						c.Fail("CL3", "progressive results lost", "%s: progress handler saw %v, router sent 1,2,3 before the final result", desc, op.progress)
					}
				}
			}
		}
		// ---- a call cancelled while the transport does not take the CANCEL; its final reply arrives meanwhile
		if !wedged {
			ctx, cancel := context.WithCancel(context.Background())
			var bres *wamp.Result
			var berr error
			bret := false
			go func() {
				bres, berr = w.cli.Call(ctx, "blocked.proc", nil, wamp.List{"b"}, nil, nil)
				bret = true
			}()
			synctest.Wait()
			var breq wamp.ID
			for _, m := range w.rtr.Take() {
				if x, ok := m.Msg.(*wamp.Call); ok && x.Procedure == "blocked.proc" {
					breq = x.Request
				}
			}
			w.rtr.Pause()
			synctest.Wait()
			cancel()
			synctest.Wait() // the client is now trying to hand its CANCEL to a transport that does not take it
			tb := w.Now()
			w.rtr.Send(&wamp.Result{Request: breq, Details: wamp.Dict{}, Arguments: wamp.List{"late-final"}})
			synctest.Wait()
			c.Hit("CL4")
			if !bret || w.Now() != tb {
				c.Fail("CL4", "call being cancelled does not end when its final reply arrives while the CANCEL is still unsent", "context cancelled while the transport was not taking messages; the call's final RESULT arrived: Call returned=%v (virtual %v later)", bret, w.Now()-tb)
			}
			w.rtr.Unpause()
			time.Sleep(2 * tmo)
			synctest.Wait()
			if bret && !errors.Is(berr, context.Canceled) && !(berr == nil && bres != nil && tokenOf(bres.Arguments) == "late-final") {
				c.Fail("CL4", "cancelled call returns neither the context's error nor its reply", "context cancelled while the transport was blocked, final reply delivered meanwhile: Call returned result=%v err=%v", bres, berr)
			}
			cancel()
			w.rtr.Take()
		}
		// ---- invocations, interrupts, events for what is registered / subscribed
		mu.Lock()
		var regNames, subNames []string
		for k := range regs {
			regNames = append(regNames, k)
		}
		for k := range subs {
			subNames = append(subNames, k)
		}
		mu.Unlock()
		sort.Strings(regNames)
		sort.Strings(subNames)
		w.rtr.Take()
		if len(regNames) > 0 {
			reg := wamp.ID(8000 + nameID(regNames[0]))
			// plain invocations 1..4, a duplicate of 2, a stale id 1, and a waiting one that gets interrupted
			for _, id := range []wamp.ID{1, 2, 2, 3, 1, 4} {
				w.rtr.Send(&wamp.Invocation{Request: id, Registration: reg, Details: wamp.Dict{}, Arguments: wamp.List{"plain"}})
			}
			w.rtr.Send(&wamp.Invocation{Request: 5, Registration: reg, Details: wamp.Dict{}, Arguments: wamp.List{"wait"}})
			// an invocation carrying the call's timeout (the callee registered with forward_timeout, or the dealer
			// passes it on): the handler's context ends after 50 ms without any INTERRUPT
			w.rtr.Send(&wamp.Invocation{Request: 6, Registration: reg, Details: wamp.Dict{"timeout": 50}, Arguments: wamp.List{"wait"}})
			// INTERRUPT directly behind its INVOCATION (a caller that cancels at once): ids 7..11
			for id := wamp.ID(7); id <= 11; id++ {
				w.rtr.Send(&wamp.Invocation{Request: id, Registration: reg, Details: wamp.Dict{}, Arguments: wamp.List{"wait"}})
				w.rtr.Send(&wamp.Interrupt{Request: id, Options: wamp.Dict{"mode": "killnowait"}})
			}
			// handlers that answer the cancellation with an ordinary result: ids 12..16 (interrupted below)
			for id := wamp.ID(12); id <= 16; id++ {
				w.rtr.Send(&wamp.Invocation{Request: id, Registration: reg, Details: wamp.Dict{}, Arguments: wamp.List{"waitok"}})
			}
			synctest.Wait()
			for id := wamp.ID(12); id <= 16; id++ {
				w.rtr.Send(&wamp.Interrupt{Request: id, Options: wamp.Dict{"mode": "killnowait"}})
			}
			w.rtr.Send(&wamp.Interrupt{Request: 5, Options: wamp.Dict{"mode": "killnowait"}})
			w.rtr.Send(&wamp.Interrupt{Request: 99, Options: wamp.Dict{}})
			synctest.Wait()
			time.Sleep(10 * time.Millisecond)
			synctest.Wait()
			mu.Lock()
			early6 := handlerCtxDone[6]
			mu.Unlock()
			time.Sleep(60 * time.Millisecond)
			synctest.Wait()
			answers := map[uint64]int{}
			for _, m := range w.rtr.Take() {
				switch x := m.Msg.(type) {
				case *wamp.Yield:
					if pr, _ := x.Options["progress"].(bool); !pr {
						answers[uint64(x.Request)]++
					}
				case *wamp.Error:
					if x.Type == wamp.INVOCATION {
						answers[uint64(x.Request)]++
					}
				}
			}
			mu.Lock()
			c.Hit("CL5")
			if early6 || !handlerCtxDone[6] {
				c.Fail("CL5", "handler context does not end at the invocation's timeout", "INVOCATION 6 carried timeout=50 (ms): handler context done 10 ms after the invocation: %v, after 70 ms: %v (expected false, true)", early6, handlerCtxDone[6])
			}
			for id := uint64(12); id <= 16; id++ {
				c.Hit("CL6")
				if answers[id] != 1 {
					c.Fail("CL6", "not exactly one final answer per invocation", "INVOCATION %d was interrupted and its handler then returned an ordinary result: client sent %d final YIELD/ERROR messages (handler context cancelled: %v)", id, answers[id], handlerCtxDone[id])
				}
			}
			for id := uint64(7); id <= 11; id++ {
				// the handler may not have been started at all when the INTERRUPT came (then the invocation is
				// answered with ERROR right away); if it was started, its context must have been cancelled
				c.Hit("CL5")
				if handlerRuns[id] > 1 || (handlerRuns[id] == 1 && !handlerCtxDone[id]) {
					c.Fail("CL5", "INTERRUPT directly behind its INVOCATION is lost", "INVOCATION %d was followed at once by INTERRUPT %d: handler entered %d times, its context cancelled: %v", id, id, handlerRuns[id], handlerCtxDone[id])
				}
				c.Hit("CL6")
				if answers[id] != 1 {
					c.Fail("CL6", "not exactly one final answer per invocation", "INVOCATION %d followed at once by INTERRUPT: client sent %d final YIELD/ERROR messages", id, answers[id])
				}
			}
			for id := uint64(1); id <= 6; id++ {
				c.Hit("CL5")
				if handlerRuns[id] != 1 {
					c.Fail("CL5", "invocation handler not entered exactly once", "INVOCATION request %d (sent %s): handler entered %d times", id, map[bool]string{true: "twice, the second a duplicate/stale id", false: "once"}[id <= 2], handlerRuns[id])
				}
				c.Hit("CL6")
				if answers[id] != 1 {
					c.Fail("CL6", "not exactly one final answer per invocation", "INVOCATION request %d: client sent %d final YIELD/ERROR messages", id, answers[id])
				}
			}
			if !handlerCtxDone[5] {
				c.Fail("CL5", "handler context not cancelled on INTERRUPT", "the handler of invocation 5 was not released after INTERRUPT")
			}
			mu.Unlock()
			// ---- a progressive call whose chunks arrive in a burst while the handler is still busy with the first one
			const nChunks = 40
			go func() {
				for k := 0; k < nChunks; k++ {
					w.rtr.Send(&wamp.Invocation{Request: 200, Registration: reg, Details: wamp.Dict{"progress": true}, Arguments: wamp.List{"chunks", k}})
				}
				w.rtr.Send(&wamp.Invocation{Request: 200, Registration: reg, Details: wamp.Dict{}, Arguments: wamp.List{"chunks", nChunks}})
			}()
			synctest.Wait()
			close(chunkGate)
			synctest.Wait()
			time.Sleep(10 * time.Millisecond)
			synctest.Wait()
			mu.Lock()
			c.Hit("CL5")
			want := make([]int, nChunks+1)
			for k := range want {
				want[k] = k
			}
			if fmt.Sprint(chunksSeen) != fmt.Sprint(want) {
				c.Fail("CL5", "progressive invocation chunks lost or reordered", "%d progressive chunks and the final one arrived in a burst while the handler was busy with chunk 0; the handler saw %v", nChunks, chunksSeen)
			}
			mu.Unlock()
			finals := 0
			for _, m := range w.rtr.Take() {
				if y, ok := m.Msg.(*wamp.Yield); ok && y.Request == 200 {
					if pr, _ := y.Options["progress"].(bool); !pr {
						finals++
					}
				}
			}
			c.Hit("CL6")
			if finals != 1 {
				c.Fail("CL6", "not exactly one final answer per invocation", "progressive invocation 200 (%d chunks): client sent %d final YIELDs", nChunks, finals)
			}
			// ---- the handler has returned its result, the transport is slow to take the YIELD, and an INTERRUPT arrives meanwhile
			w.rtr.Pause()
			synctest.Wait()
			w.rtr.Send(&wamp.Invocation{Request: 201, Registration: reg, Details: wamp.Dict{}, Arguments: wamp.List{"plain"}})
			synctest.Wait()
			w.rtr.Send(&wamp.Interrupt{Request: 201, Options: wamp.Dict{"mode": "killnowait"}})
			synctest.Wait()
			w.rtr.Unpause()
			synctest.Wait()
			time.Sleep(10 * time.Millisecond)
			synctest.Wait()
			late := 0
			for _, m := range w.rtr.Take() {
				switch x := m.Msg.(type) {
				case *wamp.Yield:
					if x.Request == 201 {
						late++
					}
				case *wamp.Error:
					if x.Type == wamp.INVOCATION && x.Request == 201 {
						late++
					}
				}
			}
			c.Hit("CL6")
			if late != 1 {
				c.Fail("CL6", "not exactly one final answer per invocation", "invocation 201: the handler had returned its result while the transport was not taking messages, then INTERRUPT arrived: client sent %d final YIELD/ERROR messages", late)
			}
		}
		if len(subNames) > 0 {
			sub := wamp.ID(7000 + nameID(subNames[0]))
			mu.Lock()
			evOrder = nil
			mu.Unlock()
			for n := 1; n <= 8; n++ {
				w.rtr.Send(&wamp.Event{Subscription: sub, Publication: wamp.ID(n), Details: wamp.Dict{}, Arguments: wamp.List{n}})
			}
			synctest.Wait()
			time.Sleep(20 * time.Millisecond)
			synctest.Wait()
			mu.Lock()
			c.Hit("CL7")
			if evOverlap {
				c.Fail("CL7", "event handlers overlap", "two event handlers of the client ran at the same time")
			}
			if fmt.Sprint(evOrder) != "[1 2 3 4 5 6 7 8]" {
				c.Fail("CL7", "events handled out of arrival order", "handlers ran for events %v", evOrder)
			}
			mu.Unlock()
		}
		if w.rtr.Stuck() {
			c.Fail("CL9", "client stopped taking messages from the router", "a message from the router could not be handed to the client for a virtual hour\n%s", w.rtr.StuckInfo())
		}
		w.closeAndCheck(c, true)
	})
	if panicText != "" {
		c.Fail("CL8", "bubble panic: "+firstLine(panicText), "%s", panicText)
	}
	c.NT = reordered > 0 || coincided > 0
	c.Add("replies_reordered_rounds", float64(reordered))
	c.Add("timer_reply_coincidences", float64(coincided))
	c.Key = fmt.Sprintf("tmo=%v G=%d mode=%s|%s", tmo, G, cancelMode, strings.Join(script, "\n"))
	if c.Index < 3 || len(c.Viol) > 0 {
		c.Sample = map[string]any{"response_timeout": tmo.String(), "goroutines": G, "cancel_mode": cancelMode, "ops": clip(script, 30)}
	}
}

// nameID maps the generated name n.r<round>.g<goroutine> to a unique small id.
func nameID(s string) uint64 {
	var round, g int
	fmt.Sscanf(s, "n.r%d.g%d", &round, &g)
	return uint64(1 + round*64 + g)
}

// fixProgressOrder restores, within a plan sorted by time, the order of the
// results of each single call (progress 1,2,3 then final).
func fixProgressOrder[T any](plan []T, key func(T) (uint64, int, bool), swap func(i, j int)) {
	for i := 0; i < len(plan); i++ {
		for j := i + 1; j < len(plan); j++ {
			ri, ni, oki := key(plan[i])
			rj, nj, okj := key(plan[j])
			if oki && okj && ri == rj && ni > nj {
				swap(i, j)
			}
		}
	}
}
