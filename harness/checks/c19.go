package checks

import (
	"fmt"
	"math"
	"strings"

	"github.com/gammazero/nexus/v3/wamp"

	"verif/harness/model"
)

// C19 — URI validation/matching and id generation follow the WAMP rules.
// Engine "pure": differential against model.ValidURI / PrefixMatch /
// WildcardMatch / IsNewRecvID and direct range/sequence assertions.

var c19Alphabet = []string{"a", "A", "0", "_", ".", "#", " ", "\n", "é", "-"}

const c19Chunks = 64

func c19MaxLen(tier string) int {
	if tier == "thorough" {
		return 6
	}
	return 5
}

type uriMode struct {
	strict bool
	match  string
}

var uriModes = []uriMode{
	{false, ""}, {false, wamp.MatchPrefix}, {false, wamp.MatchWildcard},
	{true, ""}, {true, wamp.MatchPrefix}, {true, wamp.MatchWildcard},
}

func init() {
	register(&Prop{
		ID: "C19",
		Cases: func(tier string) int {
			// chunks of the exhaustive enumeration + pair case + random cases + id cases
			if tier == "thorough" {
				return c19Chunks + 1 + 64 + 40
			}
			return c19Chunks + 1 + 16 + 12
		},
		Batch: func(tier string) int { return 8 },
		Run:   runC19,
		Rule: "cases are chunks: (a) exhaustive strings over a 10-symbol alphabet up to length L in all six strict×policy modes, " +
			"(b) all (pattern,uri) pairs up to length 4 over {a,b,.}, (c) random Unicode/invalid-UTF-8 strings, (d) id functions " +
			"(IDGen wrap via hook, GlobalID range, AsID boundaries, IsNewRecvID exhaustive near 0 and 2^53 plus random 64-bit pairs); " +
			"a chunk is non-trivial when it contains an input on which at least two of the six modes disagree (or, for id chunks, inputs on both sides of a boundary)",
		Required: []string{"UR1", "UR7", "UR8", "ID1", "ID2", "ID3", "ID4"},
		Level:    "exploration",
	})
}

func c19CheckURI(c *Case, s string) (disagree bool) {
	var first, differs bool
	for i, m := range uriModes {
		got := wamp.URI(s).ValidURI(m.strict, m.match)
		want := model.ValidURI(s, m.strict, model.NormMatch(m.match))
		c.Hit("UR1")
		if got != want {
			rule := fmt.Sprintf("UR%d", i+1)
			c.Fail(rule, fmt.Sprintf("validuri strict=%v match=%q", m.strict, m.match),
				"ValidURI(%q, strict=%v, match=%q) = %v, reference says %v", s, m.strict, m.match, got, want)
		}
		if i == 0 {
			first = want
		} else if want != first {
			differs = true
		}
	}
	return differs
}

func runC19(c *Case) {
	nEnum := c19Chunks
	nRandom, nID := 16, 12
	if c.Tier == "thorough" {
		nRandom, nID = 64, 40
	}
	switch {
	case c.Index < nEnum:
		c19Enum(c, c.Index, c19MaxLen(c.Tier))
	case c.Index == nEnum:
		c19Pairs(c)
	case c.Index < nEnum+1+nRandom:
		c19Random(c)
	default:
		c19IDs(c, c.Index-(nEnum+1+nRandom), nID)
	}
}

func c19Enum(c *Case, chunk, maxLen int) {
	c.Key = fmt.Sprintf("enum chunk %d/%d maxlen %d", chunk, c19Chunks, maxLen)
	k := len(c19Alphabet)
	total := 0
	for l, n := 0, 1; l <= maxLen; l, n = l+1, n*k {
		total += n
	}
	var disc int
	var samples []string
	idx := 0
	for l, n := 0, 1; l <= maxLen; l, n = l+1, n*k {
		for i := 0; i < n; i++ {
			if idx%c19Chunks == chunk {
				var sb strings.Builder
				x := i
				for j := 0; j < l; j++ {
					sb.WriteString(c19Alphabet[x%k])
					x /= k
				}
				s := sb.String()
				if c19CheckURI(c, s) {
					disc++
					if len(samples) < 5 && l >= 3 {
						samples = append(samples, s)
					}
				}
				c.Add("uri_inputs", 1)
			}
			idx++
		}
	}
	c.Add("discriminating_inputs", float64(disc))
	c.NT = disc > 0
	c.Sample = map[string]any{"kind": "exhaustive-uri-chunk", "chunk": chunk, "of": c19Chunks, "max_len": maxLen,
		"alphabet": c19Alphabet, "total_strings": total, "discriminating_examples": samples}
}

func c19Pairs(c *Case) {
	c.Key = "pairs len<=4 over {a,b,.}"
	alpha := []string{"a", "b", "."}
	var all []string
	var rec func(prefix string, l int)
	rec = func(prefix string, l int) {
		all = append(all, prefix)
		if l == 4 {
			return
		}
		for _, a := range alpha {
			rec(prefix+a, l+1)
		}
	}
	rec("", 0)
	var pos, neg int
	for _, pat := range all {
		for _, u := range all {
			c.Hit("UR7")
			if got, want := wamp.URI(u).PrefixMatch(wamp.URI(pat)), model.PrefixMatch(u, pat); got != want {
				c.Fail("UR7", "prefixmatch", "URI(%q).PrefixMatch(%q) = %v, reference %v", u, pat, got, want)
			}
			c.Hit("UR8")
			got, want := wamp.URI(u).WildcardMatch(wamp.URI(pat)), model.WildcardMatch(u, pat)
			if got != want {
				c.Fail("UR8", "wildcardmatch", "URI(%q).WildcardMatch(%q) = %v, reference %v", u, pat, got, want)
			}
			if want {
				pos++
			} else {
				neg++
			}
		}
	}
	c.Add("pattern_pairs", float64(len(all)*len(all)))
	c.NT = pos > 0 && neg > 0
	c.Sample = map[string]any{"kind": "exhaustive-pattern-pairs", "strings": len(all), "pairs": len(all) * len(all),
		"wildcard_matches": pos, "wildcard_non_matches": neg, "example": []string{"a..b", "a.b.b"}}
}

var c19Runes = []rune{'a', 'z', 'A', '0', '9', '_', '.', '.', '.', '#', ' ', '\t', '\n', '\r', '\f', '\v', 0x85, 0xA0, 0x2028, 0x3000, 'é', '日', 0x1F600, '-', '/', ':', '*', 0}

func c19Random(c *Case) {
	c.Key = fmt.Sprintf("random uris %d", c.Index)
	const n = 20000
	var disc int
	var samples []string
	for i := 0; i < n; i++ {
		l := c.Rng.IntN(12)
		if c.Rng.IntN(50) == 0 {
			l = c.Rng.IntN(4096)
		}
		var sb strings.Builder
		for j := 0; j < l; j++ {
			switch c.Rng.IntN(20) {
			case 0: // arbitrary rune
				sb.WriteRune(rune(c.Rng.IntN(0x10FFFF)))
			case 1: // invalid UTF-8 byte
				sb.WriteByte(byte(0x80 + c.Rng.IntN(0x80)))
			default:
				sb.WriteRune(c19Runes[c.Rng.IntN(len(c19Runes))])
			}
		}
		s := sb.String()
		// Undecided whitespace (I7): VT, NEL, NBSP and other Unicode spaces are
		// only judged in strict mode (which must reject them). For loose
		// mode skip strings containing them.
		if strings.ContainsAny(s, "\v\u0085\u00a0\u2028\u3000") {
			for _, m := range uriModes[3:] {
				c.Hit("UR4")
				if wamp.URI(s).ValidURI(true, m.match) {
					c.Fail("UR4", "strict accepts unicode space", "strict ValidURI(%q, match=%q) accepted", s, m.match)
				}
			}
			continue
		}
		if c19CheckURI(c, s) {
			disc++
			if len(samples) < 5 {
				samples = append(samples, s)
			}
		}
		// matching on random pairs derived from s
		if l > 0 {
			cut := c.Rng.IntN(len(s) + 1)
			pat := s[:cut]
			c.Hit("UR7")
			if got, want := wamp.URI(s).PrefixMatch(wamp.URI(pat)), model.PrefixMatch(s, pat); got != want {
				c.Fail("UR7", "prefixmatch", "URI(%q).PrefixMatch(%q) = %v, reference %v", s, pat, got, want)
			}
			// wildcard: blank some components
			comps := strings.Split(s, ".")
			for k := range comps {
				if c.Rng.IntN(3) == 0 {
					comps[k] = ""
				}
			}
			wc := strings.Join(comps, ".")
			c.Hit("UR8")
			if got, want := wamp.URI(s).WildcardMatch(wamp.URI(wc)), model.WildcardMatch(s, wc); got != want {
				c.Fail("UR8", "wildcardmatch", "URI(%q).WildcardMatch(%q) = %v, reference %v", s, wc, got, want)
			}
		}
		c.Add("uri_inputs", 1)
	}
	c.Add("discriminating_inputs", float64(disc))
	c.NT = disc > 0
	c.Sample = map[string]any{"kind": "random-uris", "count": n, "discriminating_examples": samples}
}

func c19IDs(c *Case, sub, nSub int) {
	c.Key = fmt.Sprintf("ids %d", sub)
	const max = uint64(1) << 53
	switch {
	case sub == 0:
		// IDGen: first 1, +1, wrap 2^53 -> 1.
		g := new(wamp.IDGen)
		for i := uint64(1); i <= 1000; i++ {
			c.Hit("ID1")
			if got := uint64(g.Next()); got != i {
				c.Fail("ID1", "idgen sequence", "IDGen.Next() call %d returned %d", i, got)
				break
			}
		}
		g.VerifSetNext(max - 3)
		want := []uint64{max - 2, max - 1, max, 1, 2, 3}
		var got []uint64
		for range want {
			got = append(got, uint64(g.Next()))
		}
		c.Hit("ID1")
		if fmt.Sprint(got) != fmt.Sprint(want) {
			c.Fail("ID1", "idgen wrap", "IDGen across the wrap: got %v want %v", got, want)
		}
		var sg wamp.SyncIDGen
		sg.VerifSetNext(max - 1)
		got = got[:0]
		for i := 0; i < 3; i++ {
			got = append(got, uint64(sg.Next()))
		}
		c.Hit("ID1")
		if fmt.Sprint(got) != fmt.Sprint([]uint64{max, 1, 2}) {
			c.Fail("ID1", "syncidgen wrap", "SyncIDGen across the wrap: got %v", got)
		}
		c.NT = true
		c.Sample = map[string]any{"kind": "idgen", "wrap_sequence": want}
	case sub == 1:
		n := 200000
		var lo, hi uint64 = math.MaxUint64, 0
		for i := 0; i < n; i++ {
			c.Hit("ID2")
			id := uint64(wamp.GlobalID())
			if id < 1 || id > max {
				c.Fail("ID2", "globalid range", "GlobalID() = %d outside [1, 2^53]", id)
			}
			if id < lo {
				lo = id
			}
			if id > hi {
				hi = id
			}
		}
		c.NT = true
		c.Add("globalid_draws", float64(n))
		c.Sample = map[string]any{"kind": "globalid", "draws": n, "min": lo, "max": hi}
	case sub == 2:
		c19AsID(c)
	default:
		c19RecvID(c, sub-3, nSub-3)
	}
}

func c19AsID(c *Case) {
	const max = int64(1) << 53
	type tc struct {
		v    any
		want bool
		val  uint64
	}
	var cases []tc
	addInt := func(n int64) {
		ok := n >= 1 && n <= max
		cases = append(cases, tc{n, ok, uint64(n)}, tc{int(n), ok, uint64(n)})
		if n >= 0 {
			cases = append(cases, tc{uint64(n), ok, uint64(n)}, tc{uint(n), ok, uint64(n)}, tc{wamp.ID(n), ok, uint64(n)})
		}
		if n >= math.MinInt32 && n <= math.MaxInt32 {
			cases = append(cases, tc{int32(n), ok, uint64(n)})
		}
		if n >= 0 && n <= math.MaxUint32 {
			cases = append(cases, tc{uint32(n), ok, uint64(n)})
		}
		if f := float64(n); int64(f) == n && math.Abs(f) < 9e18 {
			cases = append(cases, tc{f, ok, uint64(n)})
		}
	}
	for _, n := range []int64{0, 1, 2, -1, -2, 500, max - 1, max, max + 1, max + 2, math.MaxInt64, math.MinInt64, math.MaxInt32, math.MaxUint32} {
		addInt(n)
	}
	cases = append(cases,
		tc{uint64(1) << 63, false, 0}, tc{uint64(math.MaxUint64), false, 0}, tc{uint64(math.MaxUint64 - 5), false, 0},
		tc{uint(1) << 63, false, 0},
		tc{math.NaN(), false, 0}, tc{math.Inf(1), false, 0}, tc{math.Inf(-1), false, 0},
		tc{0.5, false, 0}, tc{-0.5, false, 0}, tc{0.999999, false, 0},
		tc{float64(max) + 2, false, 0}, tc{1e19, false, 0}, tc{-1e19, false, 0}, tc{1e300, false, 0},
		tc{float32(0), false, 0}, tc{float32(1), true, 1}, tc{float32(-1), false, 0},
		tc{"1", false, 0}, tc{nil, false, 0}, tc{true, false, 0}, tc{[]byte{1}, false, 0}, tc{wamp.List{1}, false, 0},
	)
	// unsigned values with bit 63 set whose low bits form a valid id, and random 64-bit patterns of every integer type
	for _, low := range []uint64{0, 1, 2, 42, 4711, 1 << 20, uint64(max) - 1, uint64(max), uint64(max) + 1} {
		cases = append(cases, tc{uint64(1)<<63 | low, false, 0}, tc{uint(1)<<63 | uint(low), false, 0})
	}
	for i := 0; i < 400; i++ {
		u := c.Rng.Uint64()
		if i%2 == 0 {
			u >>= uint(c.Rng.IntN(64))
		}
		ok := u >= 1 && u <= uint64(max)
		cases = append(cases, tc{u, ok, u}, tc{uint(u), ok, u})
		n := int64(u)
		okS := n >= 1 && n <= max
		cases = append(cases, tc{n, okS, uint64(n)})
	}
	in, out := 0, 0
	for _, t := range cases {
		c.Hit("ID3")
		got, ok := wamp.AsID(t.v)
		if ok != t.want || (ok && uint64(got) != t.val) {
			c.Fail("ID3", fmt.Sprintf("asid %T", t.v), "AsID(%T %v) = (%d, %v), want ok=%v val=%d", t.v, t.v, got, ok, t.want, t.val)
		}
		if t.want {
			in++
		} else {
			out++
		}
	}
	c.NT = in > 0 && out > 0
	c.Add("asid_inputs", float64(len(cases)))
	c.Sample = map[string]any{"kind": "asid-boundaries", "inputs": len(cases), "accepted": in, "rejected": out}
}

func c19RecvID(c *Case, part, parts int) {
	const max = uint64(1) << 53
	check := func(last, id uint64) {
		c.Hit("ID4")
		s := wamp.NewSession(nil, 1, nil, nil)
		if last != 0 {
			if !s.UpdateLastRecvID(wamp.ID(last)) {
				return // last itself not a valid id: state unreachable
			}
		}
		got := s.IsNewRecvID(wamp.ID(id))
		want := model.IsNewRecvID(last, id)
		if got != want {
			c.Fail("ID4", "isnewrecvid", "IsNewRecvID(last=%d, id=%d) = %v, reference %v", last, id, got, want)
		}
	}
	var vals []uint64
	for v := uint64(0); v <= 1200; v++ {
		vals = append(vals, v)
	}
	for v := max - 1200; v <= max+2; v++ {
		vals = append(vals, v)
	}
	var nTrue int
	if part == parts-1 {
		// sequences: the session's notion of "last id" must follow every accepted id
		// (also backwards across the wrap), step by step against the reference state machine
		n, steps := 3000, 0
		var sample []string
		for i := 0; i < n; i++ {
			s := wamp.NewSession(nil, 1, nil, nil)
			var last uint64
			var cur uint64
			switch c.Rng.IntN(3) {
			case 0:
				cur = max - uint64(c.Rng.IntN(600))
			case 1:
				cur = uint64(1 + c.Rng.IntN(600))
			default:
				cur = c.Rng.Uint64N(max) + 1
			}
			for k := 0; k < 40; k++ {
				var id uint64
				switch c.Rng.IntN(8) {
				case 0, 1, 2:
					id = cur + uint64(1+c.Rng.IntN(3)) // forward
				case 3:
					id = cur // repeat
				case 4:
					id = cur - uint64(c.Rng.IntN(5)) // slightly older
				case 5:
					id = uint64(1 + c.Rng.IntN(520)) // small id (wrap candidate)
				case 6:
					id = max - uint64(c.Rng.IntN(520))
				default:
					id = c.Rng.Uint64N(max+3)
				}
				if id > max+2 {
					id = max + 2
				}
				want := model.IsNewRecvID(last, id)
				got := s.UpdateLastRecvID(wamp.ID(id))
				c.Hit("ID4")
				steps++
				if got != want {
					c.Fail("ID4", "updatelastrecvid sequence", "sequence step %d: UpdateLastRecvID(%d) with reference last=%d returned %v, reference %v", k, id, last, got, want)
					break
				}
				if want {
					last = id
					nTrue++
					cur = id
				}
				if i == 0 && k < 8 {
					sample = append(sample, fmt.Sprintf("%d->%v", id, got))
				}
			}
		}
		c.Add("recvid_sequence_steps", float64(steps))
		c.Sample = map[string]any{"kind": "recvid-sequences", "sequences": n, "steps": steps, "first": sample}
		c.NT = nTrue > 0 && nTrue < steps
		c.Key = "recvid sequences"
		return
	}
	if part < parts-2 {
		// exhaustive slice of the (last, id) square near the boundaries
		n := 0
		for i, last := range vals {
			if i%(parts-2) != part {
				continue
			}
			for _, id := range vals {
				check(last, id)
				if model.IsNewRecvID(last, id) {
					nTrue++
				}
				n++
			}
		}
		c.Add("recvid_pairs", float64(n))
		c.Sample = map[string]any{"kind": "isnewrecvid-exhaustive-slice", "part": part, "of": parts - 2, "values": len(vals), "pairs": n, "new": nTrue}
		c.NT = nTrue > 0 && nTrue < n
	} else {
		n := 300000
		for i := 0; i < n; i++ {
			var last, id uint64
			switch c.Rng.IntN(4) {
			case 0:
				last, id = c.Rng.Uint64(), c.Rng.Uint64()
			case 1:
				last, id = c.Rng.Uint64N(max+1), c.Rng.Uint64N(max+1)
			case 2:
				last = c.Rng.Uint64N(max + 1)
				id = last + uint64(c.Rng.IntN(2001)) - 1000
			default:
				last = max - uint64(c.Rng.IntN(1000))
				id = uint64(c.Rng.IntN(1000))
			}
			check(last, id)
			if model.IsNewRecvID(last, id) {
				nTrue++
			}
		}
		c.Add("recvid_pairs", float64(n))
		c.Sample = map[string]any{"kind": "isnewrecvid-random", "pairs": n, "new": nTrue}
		c.NT = nTrue > 0 && nTrue < n
	}
	c.Key = fmt.Sprintf("recvid part %d", part)
}
