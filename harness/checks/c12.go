package checks

import (
	"fmt"
	"strings"

	"github.com/gammazero/nexus/v3/wamp"

	"verif/harness/canon"
	"verif/harness/model"
	"verif/harness/sim"
)

// C12 — identity is disclosed only when allowed; recipients get independent
// messages. Engine "bubble": disclosure predicate (DS1/DS2) through the
// lock-step monitor, plus independence monitors on the delivered message
// objects themselves (DS3 co-recipient independence via restricted twin
// publications, DS4 snapshot-at-receipt vs re-read later, DS5 top-level
// mutation by an in-process recipient, DS6 no transport.auth in meta output).

func init() {
	register(&Prop{
		ID: "C12", Cases: rpcCases(1200, 20000), Batch: rpcBatch,
		Run: runC12,
		Rule: "each case: realm with random allow_disclose/meta_strict; 4-9 sessions drawn from {identification feature, none} x {local, rawsocket, websocket(with transport.auth details)} x authroles, " +
			"subscribed to one hot topic under exact, prefix and wildcard policies; 6-14 publications and calls with disclose_me in {absent,true,false}, registrations with/without disclose_caller; " +
			"every publication is repeated restricted (eligible=[r]) to single recipients and the recipient's details must be identical; delivered in-process message objects are re-read after quiescence and " +
			"after three further publications, mutated at top level by one recipient and all others re-read; on_join and wamp.session.get output is scanned for transport.auth at any depth; " +
			"non-trivial = case with a publication/call for which the disclosure predicate was true for >=1 recipient and false for >=1 other",
		Required: []string{"DS1", "DS2", "DS3", "DS4", "DS5", "DS6"},
		Level:    "exploration",
	})
}

func hasAuthKey(v any, underTransport bool) bool {
	if d, ok := canon.AsDict(v); ok {
		for k, e := range d {
			if underTransport && k == "auth" {
				return true
			}
			if hasAuthKey(e, underTransport || k == "transport") {
				return true
			}
		}
		return false
	}
	if l, ok := canon.AsList(v); ok {
		for _, e := range l {
			if hasAuthKey(e, underTransport) {
				return true
			}
		}
	}
	return false
}

func containsSecret(v any) bool { return strings.Contains(canon.Val(v), "s3cr3t-cookie") }

type keptMsg struct {
	p    int
	obs  sim.Obs
	what string
}

func runC12(c *Case) {
	g := newScriptGen(c)
	r := c.Rng
	realm := RealmSetup{RealmSpec: model.RealmSpec{Name: "realm1", AllowDisclose: chance(r, 60), MetaKill: true}, MetaStrict: chance(r, 40)}
	// in a third of the realms in-process sessions are authenticated like remote ones, so they are not "trusted"
	realm.RequireLocalAuth = chance(r, 33)
	var setups []PuppetSetup
	var script []string
	mixed := 0
	panicText := c.Bubble(func() {
		run, err := NewRunner(c, []RealmSetup{realm}, nil)
		if err != nil {
			c.Fail("HARNESS", "world", "cannot create world: %v", err)
			return
		}
		run.Mon.CheckDisclose = true
		run.Mon.TrackMeta = true
		exec := func(op model.Op) map[int][]sim.Obs {
			script = append(script, op.String())
			return run.ExecObs(op)
		}
		var kept []keptMsg // in-process message objects delivered so far
		keep := func(obs map[int][]sim.Obs, what string) {
			for p, l := range obs {
				if run.W.Puppets[p].Kind != sim.Local {
					continue
				}
				for _, o := range l {
					switch o.Msg.(type) {
					case *wamp.Event, *wamp.Invocation, *wamp.Result:
						kept = append(kept, keptMsg{p, o, what})
					}
				}
			}
		}
		reread := func(rule, when string) {
			for _, k := range kept {
				c.Hit(rule)
				if now := canon.Msg(k.obs.Msg); now != k.obs.Snap {
					c.Fail(rule, "message changed after delivery ("+when+") "+k.obs.Msg.MessageType().String(),
						"message delivered to in-process P%d by %q changed after delivery (%s)\n at receipt: %s\n now:        %s", k.p, k.what, when, k.obs.Snap, now)
				}
			}
		}
		join := func(ps PuppetSetup) int {
			setups = append(setups, ps)
			script = append(script, "join "+ps.String())
			obs := run.JoinObs(ps)
			// DS6: on_join payloads
			for p, l := range obs {
				for _, o := range l {
					if ev, ok := o.Msg.(*wamp.Event); ok {
						c.Hit("DS6")
						if hasAuthKey(ev.Arguments, false) || containsSecret(ev.Arguments) {
							c.Fail("DS6", "transport.auth in on_join", "on_join event at P%d exposes transport authentication data: %s", p, o.Snap)
						}
					}
				}
			}
			return len(run.W.Puppets) - 1
		}
		feat := func(sub, callee bool) map[string][]string {
			f := map[string][]string{"publisher": {"publisher_exclusion"}, "caller": {"call_canceling", "caller_identification"},
				"subscriber": {"pattern_based_subscription"}, "callee": {"call_canceling", "shared_registration", "pattern_based_registration"}}
			if sub {
				f["subscriber"] = append(f["subscriber"], "publisher_identification")
			}
			if callee {
				f["callee"] = append(f["callee"], "caller_identification")
			}
			return f
		}
		// P0: observer of session meta events (exact), also asks wamp.session.get
		obsP := join(PuppetSetup{Kind: sim.Local, Realm: realm.Name, AuthID: "erin", LocalAuth: realm.RequireLocalAuth})
		exec(model.Op{Kind: model.OpSubscribe, P: obsP, Req: g.nextReq(obsP), URI: model.TopicSessOnJoin})
		n := 4 + r.IntN(5)
		for i := 0; i < n; i++ {
			ps := randomPuppet(r, realm.Name, 50)
			if i < 2 {
				ps.Kind = sim.Local // at least two in-process recipients
			}
			ps.Features = feat(chance(r, 55), chance(r, 55))
			if realm.RequireLocalAuth && ps.Kind == sim.Local {
				ps.LocalAuth = true
				if ps.AuthID == "" {
					ps.AuthID = pick(r, authIDs)
				}
			}
			if ps.Kind.IsWS() {
				ps.TDetails = wamp.Dict{"auth": wamp.Dict{"cookie": "s3cr3t-cookie", "request": wamp.Dict{"header": wamp.List{"s3cr3t-cookie"}}}}
				if chance(r, 50) {
					ps.TDetails["peer"] = "10.0.0.1"
				}
			}
			join(ps)
		}
		all := run.Mon.AliveSessions()
		topic := "a.b.c"
		// subscriptions of the hot topic under all policies
		subKeys := [][2]string{{"a.b.c", ""}, {"a.b", "prefix"}, {"a.", "prefix"}, {"a..c", "wildcard"}, {"..", "wildcard"}, {"a.b.c", "exact"}}
		for _, p := range all[1:] {
			for k := 1 + r.IntN(2); k > 0; k-- {
				sk := pick(r, subKeys)
				exec(model.Op{Kind: model.OpSubscribe, P: p, Req: g.nextReq(p), URI: sk[0], Opts: matchOpts(sk[1])})
			}
		}
		// registrations
		procs := []string{"p.one", "p.two", "p.three"}
		for i, proc := range procs {
			p := all[1+i%(len(all)-1)]
			opts := map[string]any{}
			if chance(r, 50) {
				opts["disclose_caller"] = true
			}
			exec(model.Op{Kind: model.OpRegister, P: p, Req: g.nextReq(p), URI: proc, Opts: opts})
		}
		disc := func() map[string]any {
			o := map[string]any{"acknowledge": true}
			switch r.IntN(3) {
			case 0:
				o["disclose_me"] = true
			case 1:
				o["disclose_me"] = false
			}
			if chance(r, 30) {
				o["exclude_me"] = false
			}
			return o
		}
		eventDetails := func(obs map[int][]sim.Obs, p int) map[uint64]string {
			out := map[uint64]string{}
			for _, o := range obs[p] {
				if ev, ok := o.Msg.(*wamp.Event); ok {
					out[uint64(ev.Subscription)] = canon.Dict(ev.Details)
				}
			}
			return out
		}
		nPub := 6 + r.IntN(9)
		for i := 0; i < nPub; i++ {
			pub := pick(r, all[1:])
			if chance(r, 65) {
				args, kw := g.payload()
				opts := disc()
				obs := exec(model.Op{Kind: model.OpPublish, P: pub, Req: g.nextReq(pub), URI: topic, Opts: opts, Args: args, Kw: kw})
				keep(obs, script[len(script)-1])
				// predicate mixed?
				if d, _ := opts["disclose_me"].(bool); d && realm.AllowDisclose {
					yes, no := 0, 0
					for p, l := range obs {
						for _, o := range l {
							if _, ok := o.Msg.(*wamp.Event); ok {
								if run.Mon.Sess[p].Has("subscriber", "publisher_identification") {
									yes++
								} else {
									no++
								}
							}
						}
					}
					if yes > 0 && no > 0 {
						mixed++
					}
				}
				// DS3: the same publication restricted to a single recipient
				var recips []int
				for p, l := range obs {
					for _, o := range l {
						if _, ok := o.Msg.(*wamp.Event); ok {
							recips = append(recips, p)
							break
						}
					}
				}
				if len(recips) >= 2 {
					for k := 0; k < 2; k++ {
						rcp := pick(r, recips)
						o2 := map[string]any{}
						for k2, v := range opts {
							o2[k2] = v
						}
						o2["eligible"] = refsTo(rcp)
						obs2 := exec(model.Op{Kind: model.OpPublish, P: pub, Req: g.nextReq(pub), URI: topic, Opts: o2, Args: args, Kw: kw})
						keep(obs2, script[len(script)-1])
						a, b := eventDetails(obs, rcp), eventDetails(obs2, rcp)
						c.Hit("DS3")
						for sub, da := range a {
							if db, ok := b[sub]; ok && da != db {
								c.Fail("DS3", "details depend on co-recipients", "EVENT details for P%d subscription %d differ between a publication delivered to %d recipients and the same publication restricted to P%d alone:\n with co-recipients: %s\n alone:              %s",
									rcp, sub, len(recips), rcp, da, db)
							}
						}
					}
				}
			} else {
				args, kw := g.payload()
				opts := map[string]any{}
				switch r.IntN(3) {
				case 0:
					opts["disclose_me"] = true
				case 1:
					opts["disclose_me"] = false
				}
				obs := exec(model.Op{Kind: model.OpCall, P: pub, Req: g.nextReq(pub), URI: pick(r, procs), Opts: opts, Args: args, Kw: kw})
				keep(obs, script[len(script)-1])
				for _, pc := range run.Mon.PendingCalls() {
					if pc.Caller == pub {
						a2, k2 := g.payload()
						obs := exec(model.Op{Kind: model.OpYield, P: pc.Callee, Target: model.Ref{Kind: "inv", P: pc.Caller, Req: pc.Req}, Opts: map[string]any{}, Args: a2, Kw: k2})
						keep(obs, script[len(script)-1])
					}
				}
			}
			if i%3 == 2 {
				reread("DS4", "after quiescence and further publications")
			}
		}
		reread("DS4", "at the end of the script")
		// DS5: one in-process recipient mutates its message at top level
		for i, k := range kept {
			if i%3 != 0 {
				continue
			}
			c.Hit("DS5")
			switch m := k.obs.Msg.(type) {
			case *wamp.Event:
				if m.Details != nil {
					m.Details["mutated_by_recipient"] = true
					delete(m.Details, "topic")
				}
				if len(m.Arguments) > 0 {
					m.Arguments[0] = "MUTATED"
				}
				if m.ArgumentsKw != nil {
					m.ArgumentsKw["mutated"] = 1
				}
			case *wamp.Invocation:
				if m.Details != nil {
					m.Details["mutated_by_recipient"] = true
				}
				if len(m.Arguments) > 0 {
					m.Arguments[0] = "MUTATED"
				}
				if m.ArgumentsKw != nil {
					m.ArgumentsKw["mutated"] = 1
				}
			case *wamp.Result:
				if len(m.Arguments) > 0 {
					m.Arguments[0] = "MUTATED"
				}
			}
			kept[i].obs.Snap = canon.Msg(k.obs.Msg) // its own copy may change; nobody else's
		}
		reread("DS5", "after another in-process recipient mutated its own copy")
		// a later delivery is unaffected
		if len(all) > 2 {
			args, kw := g.payload()
			obs := exec(model.Op{Kind: model.OpPublish, P: all[1], Req: g.nextReq(all[1]), URI: topic, Opts: map[string]any{"exclude_me": false}, Args: args, Kw: kw})
			keep(obs, "final publication")
		}
		// DS6: wamp.session.get of every session
		for _, p := range run.Mon.AliveSessions() {
			obs := exec(model.Op{Kind: model.OpMetaCall, P: obsP, Req: g.nextReq(obsP), URI: "wamp.session.get", Args: []any{model.Ref{Kind: "sid", P: p}}})
			for _, o := range obs[obsP] {
				if res, ok := o.Msg.(*wamp.Result); ok {
					c.Hit("DS6")
					if hasAuthKey(res.Arguments, false) || containsSecret(res.Arguments) {
						c.Fail("DS6", "transport.auth in session.get", "wamp.session.get of P%d exposes transport authentication data: %s", p, o.Snap)
					}
				}
			}
		}
		c.NT = mixed > 0
		c.Add("steps", float64(run.Steps))
		c.Add("inprocess_messages_reread", float64(len(kept)))
		run.Finish()
	})
	if panicText != "" {
		c.Fail("RB1", "bubble panic: "+firstLine(panicText), "%s", panicText)
	}
	var sb strings.Builder
	for _, ps := range setups {
		sb.WriteString(ps.String() + ";")
	}
	c.Key = fmt.Sprintf("disclose=%v strict=%v|%s|%s", realm.AllowDisclose, realm.MetaStrict, sb.String(), strings.Join(script, "\n"))
	if c.Index < 3 || len(c.Viol) > 0 {
		c.Sample = map[string]any{"realm": fmt.Sprintf("allow_disclose=%v meta_strict=%v", realm.AllowDisclose, realm.MetaStrict), "sessions": puppetStrings(setups), "script": clip(script, 70)}
	}
}
