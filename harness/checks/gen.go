package checks

import (
	"fmt"
	"math/rand/v2"

	"verif/harness/model"
	"verif/harness/sim"
)

// URI pools built to overlap under all three policies.
var (
	poolTopics   = []string{"a", "a.b", "a.b.c", "a.b2", "a.x.c", "b", "b.b.c", "a.b.c.d"}
	poolPrefix   = []string{"a", "a.", "a.b", "a.b.", "", "b", "a.b.c"}
	poolWildcard = []string{"a..c", ".b.", "a.", "..", ".b", "a.b.c", "a.b.", "..c"}
	poolInvalid  = []string{"a b", "a#", ".a", "a..b", "a.", "", "a.\tb", "#"}
	poolStrictNo = []string{"A.b", "a-b", "a.B.c", "é"}
	teams        = []string{"red", "blue"}
	authRoles    = []string{"admin", "user", "guest", "trusted", "anonymous"}
)

func pick[T any](r *rand.Rand, l []T) T { return l[r.IntN(len(l))] }

func chance(r *rand.Rand, pct int) bool { return r.IntN(100) < pct }

// scriptGen carries per-puppet request counters and the payload token counter.
type scriptGen struct {
	rng   *rand.Rand
	req   map[int]uint64
	token int
	tag   string
}

func newScriptGen(c *Case) *scriptGen {
	return &scriptGen{rng: c.Rng, req: map[int]uint64{}, tag: fmt.Sprintf("%s.%d", c.Prop, c.Index)}
}

func (g *scriptGen) nextReq(p int) uint64 {
	g.req[p]++
	return g.req[p]
}

// payload returns a unique-token payload.
func (g *scriptGen) payload() ([]any, map[string]any) {
	g.token++
	tok := fmt.Sprintf("%s-%d", g.tag, g.token)
	r := g.rng
	var args []any
	var kw map[string]any
	switch r.IntN(6) {
	case 0:
		args = []any{tok}
	case 1:
		args = []any{tok, g.token, 2.5, true, nil}
	case 2:
		args = []any{tok, []any{1, "x", []any{}}, map[string]any{"k": []any{1, 2}, "e": map[string]any{}}}
	case 3:
		kw = map[string]any{"tok": tok, "n": g.token}
	case 4:
		args = []any{tok}
		kw = map[string]any{"tok": tok, "nested": map[string]any{"l": []any{"a", 1}}}
	default:
		args = []any{tok, 9007199254740992, -9007199254740991, 0.1, ""}
	}
	return args, kw
}

// topicAndMatch draws a (uri, match option) pair for SUBSCRIBE/REGISTER.
func (g *scriptGen) topicAndMatch(invalidPct int) (string, string) {
	r := g.rng
	if chance(r, invalidPct) {
		m := pick(r, []string{"", "exact", "prefix", "wildcard"})
		return pick(r, poolInvalid), m
	}
	switch r.IntN(10) {
	case 0, 1, 2, 3:
		return pick(r, poolTopics), pick(r, []string{"", "exact"})
	case 4, 5, 6:
		return pick(r, poolPrefix), "prefix"
	default:
		return pick(r, poolWildcard), "wildcard"
	}
}

func matchOpts(m string) map[string]any {
	if m == "" {
		return map[string]any{}
	}
	return map[string]any{"match": m}
}

// randomKinds draws attachment kinds; network kinds with probability netPct.
func randomKind(r *rand.Rand, netPct int) sim.Kind {
	if chance(r, netPct) {
		return sim.Kind(1 + r.IntN(int(sim.NumKinds)-1))
	}
	return sim.Local
}

// randomPuppet draws a puppet setup with identity attributes.
func randomPuppet(r *rand.Rand, realm string, netPct int) PuppetSetup {
	ps := PuppetSetup{Kind: randomKind(r, netPct), Realm: realm}
	if ps.Kind == sim.Local {
		if chance(r, 70) {
			ps.AuthID = pick(r, authIDs)
		}
	} else if chance(r, 80) {
		ps.AuthID = pick(r, authIDs)
	}
	if chance(r, 60) {
		ps.Extra = map[string]string{"team": pick(r, teams)}
	}
	return ps
}

func refsTo(ps ...int) []model.Ref {
	out := make([]model.Ref, len(ps))
	for i, p := range ps {
		out[i] = model.Ref{Kind: "sid", P: p}
	}
	return out
}

// somePuppets draws 1..max distinct puppet indices below n.
func somePuppets(r *rand.Rand, n, max int) []int {
	k := 1 + r.IntN(max)
	seen := map[int]bool{}
	var out []int
	for i := 0; i < k; i++ {
		p := r.IntN(n)
		if !seen[p] {
			seen[p] = true
			out = append(out, p)
		}
	}
	return out
}
