package checks

import (
	"fmt"
	"runtime"
	"sort"
	"strings"
	"time"

	"github.com/gammazero/nexus/v3/client"
	"github.com/gammazero/nexus/v3/router"
	"github.com/gammazero/nexus/v3/wamp"

	"verif/harness/canon"
	"verif/harness/sim"
)

// C08 — per-peer ordering guarantees hold under concurrency. Engine "bubble",
// burst mode: all senders are released at once and run concurrently on several
// Ps (no quiescence in between); the recorded per-receiver logs are checked
// offline. Every payload carries a (sender, counter) token, so every log line
// is attributable.

func init() {
	register(&Prop{
		ID: "C08", Cases: rpcCases(400, 4000), Batch: func(tier string) int {
			if tier == "thorough" {
				return 250
			}
			return 7
		},
		Run: runC08,
		Rule: "each case is one burst: 2-5 publishers x 2-5 subscribers (exact, prefix and wildcard subscriptions of 2 topics), 2-4 callers x 2-4 reactive callees (progressive results), with " +
			"subscribers and callees unsubscribing/unregistering and re-subscribing/re-registering (3/10/30 rounds, closed loop) while traffic flows and callers keep 20-60 calls in flight for 0/100/300 more calls (closed loop), all over non-local transports so that the send handlers run concurrently, " +
			"GOMAXPROCS in {1,2,4,8}; each sender issues 20-60 numbered messages without waiting; offline checker over the receive logs: OR1 events per (publisher, topic, subscription) increasing, " +
			"OR2 invocations per (caller, callee) increasing, OR3 progressive results per call increasing and before the final reply, OR4/OR5 SUBSCRIBED/REGISTERED brackets; " +
			"non-trivial = burst in which >=2 senders were concurrently active towards the same receiver (measured from interleaved arrivals)",
		Required: []string{"OR1", "OR2", "OR3", "OR4", "OR5", "OR6", "OR7", "OR8"},
		Level:    "exploration",
	})
}

func runC08(c *Case) {
	r := c.Rng
	procs := pick(r, []int{1, 2, 4, 8})
	nPub, nSub := 2+r.IntN(4), 2+r.IntN(4)
	nCaller, nCallee := 2+r.IntN(3), 2+r.IntN(3)
	perSender := 20 + r.IntN(41)
	withHistory := chance(r, 40)
	churnRounds := pick(r, []int{3, 10, 30})
	hammer := pick(r, []int{0, 100, 300})
	var interleaved int
	panicText := c.Bubble(func() {
		old := runtime.GOMAXPROCS(procs)
		defer runtime.GOMAXPROCS(old)
		rcfg := &router.RealmConfig{URI: "realm1", AnonymousAuth: true}
		if withHistory {
			// topics with event history keep their subscription object across unsubscribes
			rcfg.TopicEventHistoryConfigs = []*router.TopicEventHistoryConfig{{Topic: "t.one", MatchPolicy: "exact", Limit: 5}, {Topic: "t.", MatchPolicy: "prefix", Limit: 5}}
		}
		cfg := &router.Config{RealmConfigs: []*router.RealmConfig{rcfg}}
		w, err := sim.NewWorld(cfg)
		if err != nil {
			c.Fail("HARNESS", "world", "cannot create world: %v", err)
			return
		}
		netKind := func() sim.Kind {
			if chance(r, 15) {
				return sim.Local
			}
			return sim.Kind(1 + r.IntN(int(sim.NumKinds)-1))
		}
		join := func() *sim.Puppet {
			k := netKind()
			buf := 4 << 20 // bytes for rawsocket pipes
			if k.IsWS() {
				buf = 8192 // frames for the fake websocket
			}
			p := w.AddPuppet(sim.PuppetSpec{Kind: k, QSize: 8192, PipeBuf: buf})
			p.Join("realm1", wamp.Dict{"roles": sim.AllFeatures()})
			return p
		}
		var pubs, subs, callers, callees []*sim.Puppet
		for i := 0; i < nPub; i++ {
			pubs = append(pubs, join())
		}
		for i := 0; i < nSub; i++ {
			subs = append(subs, join())
		}
		for i := 0; i < nCaller; i++ {
			callers = append(callers, join())
		}
		for i := 0; i < nCallee; i++ {
			callees = append(callees, join())
		}
		topics := []string{"t.one", "t.two"}
		subKeys := [][2]string{{"t.one", ""}, {"t.two", ""}, {"t.", "prefix"}, {"t", "prefix"}, {"t.", "wildcard"}, {".one", "wildcard"}}
		// reactive callees: progressive results then the final one
		for ci, cal := range callees {
			cal := cal
			_ = ci
			cal.SetOnMsg(func(m wamp.Message) {
				iv, ok := m.(*wamp.Invocation)
				if !ok {
					return
				}
				n := 0
				if rp, _ := iv.Details["receive_progress"].(bool); rp {
					n = 3
				}
				// every 4th call is answered in payload passthru mode (the details the router adds must not cost the progress flag)
				ppt := false
				if len(iv.Arguments) >= 3 {
					cn, _ := canon.AsID(iv.Arguments[2])
					ppt = cn%4 == 0
				}
				yopts := func(progress bool) wamp.Dict {
					o := wamp.Dict{}
					if progress {
						o["progress"] = true
					}
					if ppt {
						o["ppt_scheme"], o["ppt_serializer"] = "x_verif", "native"
					}
					return o
				}
				for k := 1; k <= n; k++ {
					cal.Send(&wamp.Yield{Request: iv.Request, Options: yopts(true), Arguments: wamp.List{"prog", k}})
				}
				cal.Send(&wamp.Yield{Request: iv.Request, Options: yopts(false), Arguments: append(wamp.List{"final"}, iv.Arguments...)})
			})
		}
		// initial state
		for i, s := range subs {
			k := subKeys[i%len(subKeys)]
			s.Send(&wamp.Subscribe{Request: 1, Options: optMatch(k[1]), Topic: wamp.URI(k[0])})
		}
		sharedReg := make([]bool, len(callees)) // callees that register with a sharing policy and repeat their REGISTER
		for i, cal := range callees {
			sharedReg[i] = chance(r, 50)
			cal.Send(&wamp.Register{Request: 1, Options: regOpts(sharedReg[i]), Procedure: wamp.URI(fmt.Sprintf("proc.%d", i))})
		}
		w.Wait()
		// ---- the burst: everything is queued, then released together (the puppets' writers run concurrently)
		for pi, p := range pubs {
			for n := 1; n <= perSender; n++ {
				p.Send(&wamp.Publish{Request: wamp.ID(n), Options: wamp.Dict{}, Topic: wamp.URI(topics[(n+pi)%2]), Arguments: wamp.List{"ev", pi, n}})
			}
		}
		for ci, p := range callers {
			for n := 1; n <= perSender; n++ {
				opts := wamp.Dict{}
				if n%2 == 0 {
					opts["receive_progress"] = true
				}
				p.Send(&wamp.Call{Request: wamp.ID(n), Options: opts, Procedure: wamp.URI(fmt.Sprintf("proc.%d", (n/7+ci)%nCallee)), Arguments: wamp.List{"call", ci, n}})
			}
		}
		// churn while traffic flows
		for i, s := range subs {
			k := subKeys[(i+1)%len(subKeys)]
			for n := 2; n < 2+perSender/10; n++ {
				s.Send(&wamp.Subscribe{Request: wamp.ID(100 + n), Options: optMatch(k[1]), Topic: wamp.URI(k[0])})
				// UNSUBSCRIBE needs the id: reactive
			}
		}
		for _, s := range subs {
			s := s
			seen := map[wamp.ID]int{}
			s.SetOnMsg(func(m wamp.Message) {
				if sd, ok := m.(*wamp.Subscribed); ok && sd.Request >= 100 {
					seen[sd.Subscription]++
					if seen[sd.Subscription]%2 == 1 {
						s.Send(&wamp.Unsubscribe{Request: 1000 + sd.Request, Subscription: sd.Subscription})
					}
				}
			})
		}
		// callers keep the pressure up while the callees churn: every final reply triggers the next call
		// (closed loop), so calls reach the dealer throughout the register/unregister rounds
		for ci, p := range callers {
			p, ci := p, ci
			sent := perSender
			p.SetOnMsg(func(m wamp.Message) {
				switch x := m.(type) {
				case *wamp.Result:
					if pr, _ := x.Details["progress"].(bool); pr {
						return
					}
				case *wamp.Error:
				default:
					return
				}
				if sent >= perSender+hammer {
					return
				}
				sent++
				opts := wamp.Dict{}
				if sent%2 == 0 {
					opts["receive_progress"] = true
				}
				p.Send(&wamp.Call{Request: wamp.ID(sent), Options: opts, Procedure: wamp.URI(fmt.Sprintf("proc.%d", (sent/7+ci)%nCallee)), Arguments: wamp.List{"call", ci, sent}})
				if sent%10 == 5 {
					// every 10th of these calls is cancelled at once in mode skip: whatever the callee still yields for it
					// must not reach the caller after the ERROR that ends the call
					p.Send(&wamp.Cancel{Request: wamp.ID(sent), Options: wamp.Dict{"mode": "skip"}})
				}
			})
		}
		for i, cal := range callees {
			cal := cal
			orig := cal.OnMsg
			regs := 0
			shared := sharedReg[i]
			proc := wamp.URI(fmt.Sprintf("proc.%d", i))
			cal.SetOnMsg(func(m wamp.Message) {
				orig(m)
				switch x := m.(type) {
				case *wamp.Registered:
					if x.Request%2 == 1 && x.Request > 1 {
						return // the answer to the repeated REGISTER of a shared registration (same id): one UNREGISTER per round
					}
					regs++
					if regs <= churnRounds && x.Request > 1 {
						cal.Send(&wamp.Unregister{Request: 2000 + x.Request, Registration: x.Registration})
					}
				case *wamp.Unregistered:
					cal.Send(&wamp.Register{Request: wamp.ID(10 + 2*regs), Options: regOpts(shared), Procedure: proc})
					if shared {
						// a member repeating its REGISTER is told the same id and stays a single member
						cal.Send(&wamp.Register{Request: wamp.ID(11 + 2*regs), Options: regOpts(shared), Procedure: proc})
					}
				}
			})
			if chance(r, 70) {
				// start the unregister/re-register churn with the registration made before the burst
				for _, o := range cal.Log() {
					if rg, ok := o.Msg.(*wamp.Registered); ok && rg.Request == 1 {
						cal.Send(&wamp.Unregister{Request: 2001, Registration: rg.Registration})
					}
				}
			}
		}
		w.Wait()
		w.Advance(1)
		// ---- a caller that stops reading for 5 s while progressive results are produced for it: the dealer
		// retries the blocked RESULT (for up to a minute), and the results that follow must wait behind it
		slow := w.AddPuppet(sim.PuppetSpec{Kind: sim.Local, QSize: 1})
		slow.Join("realm1", wamp.Dict{"roles": sim.AllFeatures()})
		slow.Stall()
		slow.Send(&wamp.Call{Request: 9001, Options: wamp.Dict{"receive_progress": true}, Procedure: "proc.0", Arguments: wamp.List{"call", 99, 9001}})
		w.Wait()
		w.Advance(5 * time.Second)
		slow.Resume()
		w.Advance(30 * time.Second)
		var slowSeq []string
		for _, o := range slow.Log() {
			switch m := o.Msg.(type) {
			case *wamp.Result:
				if pr, _ := m.Details["progress"].(bool); pr && len(m.Arguments) >= 2 {
					k, _ := canon.AsID(m.Arguments[1])
					slowSeq = append(slowSeq, fmt.Sprint("progress", k))
				} else {
					slowSeq = append(slowSeq, "final")
				}
			case *wamp.Error:
				slowSeq = append(slowSeq, "error:"+string(m.Error))
			}
		}
		c.Hit("OR7")
		if got := strings.Join(slowSeq, " "); got != "progress1 progress2 progress3 final" {
			c.Fail("OR7", "progressive results to a blocked caller lost or reordered", "a caller with a 1-message queue stopped reading for 5 s (less than the dealer's retry period) while the callee yielded progress 1,2,3 and the final result; after resuming it received: [%s]", got)
		}
		// ---- a subscriber that is the project's client library taking its events on a channel
		// (client.SubscribeChan, channel capacity 0-2) with a reader that falls behind: it stalls for
		// 0 .. 3 x the response timeout between reads while two publishers' numbered events are pending.
		// What the application reads from the channel must be in publication order per publisher.
		{
			tmoC := pick(r, []time.Duration{100 * time.Millisecond, time.Second, 5 * time.Second})
			chCap := r.IntN(3)
			nEv := 6 + r.IntN(11)
			stalls := make([]time.Duration, 2*nEv)
			for i := range stalls {
				if chance(r, 45) {
					stalls[i] = pick(r, []time.Duration{tmoC / 20, tmoC/10 + time.Millisecond, tmoC / 5, tmoC / 2, tmoC + time.Millisecond, 3 * tmoC})
				}
			}
			cli, cerr := client.ConnectLocal(w.Router, client.Config{Realm: "realm1", ResponseTimeout: tmoC, LocalQueueSize: 512, Logger: w.Log})
			if cerr != nil {
				c.Fail("HARNESS", "client", "client.ConnectLocal failed: %v", cerr)
			} else {
				events := make(chan *wamp.Event, chCap)
				if err := cli.SubscribeChan("chan.topic", events, nil); err != nil {
					c.Fail("HARNESS", "client", "client.SubscribeChan failed: %v", err)
				}
				type got struct{ pub, n int }
				var seq []got
				done := make(chan struct{})
				go func() {
					defer close(done)
					for i := 0; i < 2*nEv; i++ {
						if stalls[i] > 0 {
							time.Sleep(stalls[i])
						}
						select {
						case ev := <-events:
							if len(ev.Arguments) >= 3 {
								pi, _ := canon.AsID(ev.Arguments[1])
								k, _ := canon.AsID(ev.Arguments[2])
								seq = append(seq, got{int(pi), int(k)})
							}
						case <-time.After(20 * tmoC):
							return
						}
					}
				}()
				for i := 1; i <= nEv; i++ {
					for pi := 0; pi < 2; pi++ {
						pubs[pi].Send(&wamp.Publish{Request: wamp.ID(700000 + i), Options: wamp.Dict{}, Topic: "chan.topic", Arguments: wamp.List{"chan", pi, i}})
					}
					if i == nEv/2 {
						w.Wait()
						w.Advance(tmoC / 4)
					}
				}
				<-done
				w.Wait()
				last := map[int]int{}
				var txt []string
				for _, g := range seq {
					txt = append(txt, fmt.Sprintf("P%d:%d", g.pub, g.n))
				}
				for _, g := range seq {
					c.Hit("OR8")
					if g.n <= last[g.pub] {
						c.Fail("OR8", "client.SubscribeChan hands events to the application out of publication order", "publisher P%d's event %d read from the channel after its event %d (channel capacity %d, response timeout %v, reader stalls %v); read in this order: %s", g.pub, g.n, last[g.pub], chCap, tmoC, stalls, strings.Join(txt, " "))
						break
					}
					last[g.pub] = g.n
				}
				c.Add("events_read_from_a_client_channel", float64(len(seq)))
				if len(seq) == 0 {
					c.Fail("HARNESS", "client", "the SubscribeChan subscriber read no event at all")
				}
				cli.Close()
				w.Wait()
			}
		}
		// ---- offline checks
		all := append(append(append(append([]*sim.Puppet{}, pubs...), subs...), callers...), callees...)
		var arrival []string
		type so struct {
			p int
			o sim.Obs
		}
		var merged []so
		for _, p := range all {
			for _, o := range p.Log() {
				if o.Msg != nil {
					merged = append(merged, so{p.Idx, o})
				}
			}
		}
		sort.Slice(merged, func(i, j int) bool { return merged[i].o.Seq < merged[j].o.Seq })
		for _, x := range merged {
			arrival = append(arrival, fmt.Sprintf("%d:%d", x.p, x.o.Msg.MessageType()))
			c.Ev(x.o.Msg.MessageType().String())
		}
		c.Inter = hashKey(strings.Join(arrival, ","))
		num := func(v any) int {
			n, _ := canon.AsID(v)
			return int(n)
		}
		for _, s := range subs {
			last := map[string]int{}              // publisher|topic|subscription -> last n
			active := map[wamp.ID]bool{}          // subscription ids between SUBSCRIBED and UNSUBSCRIBED
			known := map[wamp.ID]bool{}           // ids ever announced by SUBSCRIBED
			pendingUnsub := map[wamp.ID]wamp.ID{} // unsubscribe request -> subscription (from what the puppet sent)
			lastPubSeen := -1
			for _, o := range s.Log() {
				switch m := o.Msg.(type) {
				case *wamp.Subscribed:
					active[m.Subscription], known[m.Subscription] = true, true
				case *wamp.Unsubscribed:
					// the puppet unsubscribes id X with request 1000+req of the SUBSCRIBED that announced it
					_ = pendingUnsub
				case *wamp.Event:
					if len(m.Arguments) < 3 {
						continue
					}
					pi, n := num(m.Arguments[1]), num(m.Arguments[2])
					topic, _ := canon.AsStr(m.Details["topic"])
					key := fmt.Sprintf("%d|%s|%d", pi, topic, m.Subscription)
					c.Hit("OR1")
					if n <= last[key] {
						c.Fail("OR1", "events out of publication order", "subscriber P%d (%s): publisher %d, subscription %d: event %d arrived after event %d", s.Idx, s.Kind, pi, m.Subscription, n, last[key])
					}
					last[key] = n
					c.Hit("OR4")
					if !known[m.Subscription] {
						c.Fail("OR4", "EVENT before SUBSCRIBED", "subscriber P%d received an EVENT for subscription %d before any SUBSCRIBED carrying that id", s.Idx, m.Subscription)
					}
					if lastPubSeen >= 0 && lastPubSeen != pi {
						interleaved++
					}
					lastPubSeen = pi
				}
			}
		}
		// OR4 second half: exact bracket check using the puppet's own requests (UNSUBSCRIBE X sent with request 1000+r)
		for _, s := range subs {
			unsubOf := map[wamp.ID]wamp.ID{} // UNSUBSCRIBED request -> subscription id
			for _, o := range s.Log() {
				if sd, ok := o.Msg.(*wamp.Subscribed); ok && sd.Request >= 100 {
					unsubOf[1000+sd.Request] = sd.Subscription
				}
			}
			dead := map[wamp.ID]bool{}
			for _, o := range s.Log() {
				switch m := o.Msg.(type) {
				case *wamp.Unsubscribed:
					if id, ok := unsubOf[m.Request]; ok {
						dead[id] = true
					}
				case *wamp.Subscribed:
					delete(dead, m.Subscription)
				case *wamp.Event:
					c.Hit("OR4")
					if dead[m.Subscription] {
						c.Fail("OR4", "EVENT after UNSUBSCRIBED", "subscriber P%d received an EVENT for subscription %d after UNSUBSCRIBED and before any later SUBSCRIBED", s.Idx, m.Subscription)
					}
				}
			}
		}
		for _, cal := range callees {
			last := map[int]int{}
			regKnown := map[wamp.ID]bool{}
			unregOf := map[wamp.ID]wamp.ID{}
			for _, o := range cal.Log() {
				if rg, ok := o.Msg.(*wamp.Registered); ok {
					unregOf[2000+rg.Request] = rg.Registration
				}
			}
			dead := map[wamp.ID]bool{}
			lastCaller := -1
			for _, o := range cal.Log() {
				switch m := o.Msg.(type) {
				case *wamp.Registered:
					regKnown[m.Registration] = true
					delete(dead, m.Registration)
					if m.Request > 1 {
						c.Hit("OR6") // a re-registration while traffic flows
					}
				case *wamp.Unregistered:
					if id, ok := unregOf[m.Request]; ok {
						dead[id] = true
					}
				case *wamp.Invocation:
					if len(m.Arguments) < 3 {
						continue
					}
					ci, n := num(m.Arguments[1]), num(m.Arguments[2])
					c.Hit("OR2")
					if n <= last[ci] {
						c.Fail("OR2", "invocations out of call order", "callee P%d (%s): caller %d: invocation of call %d arrived after call %d", cal.Idx, cal.Kind, ci, n, last[ci])
					}
					last[ci] = n
					c.Hit("OR5")
					if !regKnown[m.Registration] {
						c.Fail("OR5", "INVOCATION before REGISTERED", "callee P%d received an INVOCATION for registration %d before REGISTERED", cal.Idx, m.Registration)
					}
					if dead[m.Registration] {
						c.Fail("OR5", "INVOCATION after UNREGISTERED", "callee P%d received a new INVOCATION for registration %d after UNREGISTERED", cal.Idx, m.Registration)
					}
					if lastCaller >= 0 && lastCaller != ci {
						interleaved++
					}
					lastCaller = ci
				}
			}
		}
		for _, cl := range callers {
			prog := map[wamp.ID]int{}
			final := map[wamp.ID]bool{}
			for _, o := range cl.Log() {
				switch m := o.Msg.(type) {
				case *wamp.Result:
					c.Hit("OR3")
					if final[m.Request] {
						c.Fail("OR3", "result after the final reply", "caller P%d: RESULT for call %d after its final reply: %s", cl.Idx, m.Request, o.Snap)
					}
					if p, _ := m.Details["progress"].(bool); p {
						k := 0
						if len(m.Arguments) >= 2 {
							k = num(m.Arguments[1])
						}
						if k <= prog[m.Request] {
							c.Fail("OR3", "progressive results out of order", "caller P%d: call %d: progressive result %d arrived after %d", cl.Idx, m.Request, k, prog[m.Request])
						}
						prog[m.Request] = k
					} else {
						final[m.Request] = true
					}
				case *wamp.Error:
					if m.Type == wamp.CALL {
						if final[m.Request] {
							c.Fail("OR3", "error after the final reply", "caller P%d: ERROR for call %d after its final reply", cl.Idx, m.Request)
						}
						final[m.Request] = true
					}
				}
			}
		}
		c.Add("messages_checked", float64(len(merged)))
		rep := w.Teardown()
		if !rep.CloseReturned {
			c.Fail("SD1", "router close did not return", "Router.Close() did not return after the burst")
		}
	})
	if panicText != "" {
		c.Fail("RB1", "bubble panic: "+firstLine(panicText), "%s", panicText)
	}
	c.NT = interleaved > 0
	c.Add("interleaved_arrivals", float64(interleaved))
	c.Key = fmt.Sprintf("procs=%d pubs=%d subs=%d callers=%d callees=%d per=%d churn=%d hammer=%d hist=%v seed=%d", procs, nPub, nSub, nCaller, nCallee, perSender, churnRounds, hammer, withHistory, c.Index)
	c.Sample = map[string]any{"gomaxprocs": procs, "publishers": nPub, "subscribers": nSub, "callers": nCaller, "callees": nCallee, "messages_per_sender": perSender, "churn_rounds": churnRounds, "closed_loop_calls": hammer, "history_topics": withHistory,
		"interleaved_arrivals": interleaved}
}

func optMatch(m string) wamp.Dict {
	if m == "" {
		return wamp.Dict{}
	}
	return wamp.Dict{"match": m}
}


func regOpts(shared bool) wamp.Dict {
	if shared {
		return wamp.Dict{"invoke": "roundrobin"}
	}
	return wamp.Dict{}
}
