package checks

import (
	"fmt"
	"reflect"
	"time"

	"github.com/gammazero/nexus/v3/router"

	"verif/harness/model"
)

// C05 — ending a session removes all of its effects and state. Engine
// "bubble" + hook VerifSnapshot. Fault enumeration: for a generated base
// script the end of a chosen session is injected after every step k, in each
// of four ways, and the script is replayed from the start for every (k, way).

var killReasons = []string{"", "com.myapp.kicked", "wamp.close.system_shutdown", "wamp.close.normal", "wamp.close.goodbye_and_out"}

var c05Ways = []string{model.LeaveGoodbye, model.LeaveDrop, model.LeaveViolation, "kill"}

var c05Weights = rpcWeights{register: 16, unregister: 7, call: 22, yield: 10, inverr: 3, cancel: 8, advance: 2, leave: 0, join: 0, foreign: 2,
	pubsub: 26, progInv: 12, timeoutPct: 25, progPct: 35, hotPct: 25, noFinalAdvance: true, nSteps: 14}

func init() {
	register(&Prop{
		ID: "C05",
		Cases: func(tier string) int {
			if tier == "thorough" {
				return 3000
			}
			return 160
		},
		Batch: func(tier string) int {
			if tier == "thorough" {
				return 60
			}
			return 10
		},
		Run: runC05,
		Rule: "each case is one generated base script (subscribe/register/call/cancel/progress/publish/testament history over 3-6 sessions, 7-20 steps) replayed once per injection point: " +
			"the end of a chosen session is injected after every step k in [0,n] in each of four ways (GOODBYE, transport drop, meta kill, protocol violation) - exhaustive over (k, way) for that script; " +
			"oracles: departure effects vs the model (caller errors, no routing to the departed, testaments once, meta events), and after all sessions left and the clock ran 3 h the hook snapshot of " +
			"every realm/broker/dealer table equals the snapshot taken right after NewRouter; every 4th case instead runs 6 churn rounds of the script on one router and compares snapshots round over round; " +
			"non-trivial = injection point at which the leaving session held >=1 subscription/registration, pending call (either role) or testament",
		Required: []string{"LC1", "LC2", "LC4", "LC5", "RP17", "RP18"},
		Level:    "fault_enumeration",
	})
}

// replay runs the recorded steps in a fresh world; inject(k, run) is called
// before step k (k == len(steps) means after the last one).
func c05Replay(c *Case, realm RealmSetup, steps []scriptStep, inject func(k int, run *Runner), rounds int) (nt bool) {
	panicText := c.Bubble(func() {
		run, err := NewRunner(c, []RealmSetup{realm}, nil)
		if err != nil {
			c.Fail("HARNESS", "world", "cannot create world: %v", err)
			return
		}
		run.Mon.TrackMeta = false
		base := router.VerifSnapshot(run.W.Router)
		var prev map[string]router.VerifRealmSnapshot
		for round := 0; round < rounds; round++ {
			offset := len(run.W.Puppets) // puppet indices of this round are shifted
			shift := func(op model.Op) model.Op { return shiftOp(op, offset) }
			for k, st := range steps {
				if inject != nil {
					inject(k, run)
				}
				if st.Join != nil {
					run.Join(*st.Join)
				} else {
					run.Exec(shift(*st.Op))
				}
			}
			if inject != nil {
				inject(len(steps), run)
			}
			// LC5: with every call completed, no call state may be left even
			// though the sessions are still attached (refused and failed calls
			// must not accumulate during the life of a session)
			if run.Mon.NoCallState() {
				c.Hit("LC5")
				for name, s := range router.VerifSnapshot(run.W.Router) {
					if s.Calls != 0 || s.Invocations != 0 || s.InvocationByCall != 0 {
						c.Fail("LC5", fmt.Sprintf("call state left with no call pending: Calls%+d Invocations%+d InvocationByCall%+d", s.Calls, s.Invocations, s.InvocationByCall),
							"realm %s: every call of the script has completed or was refused, sessions still attached, but the dealer holds calls=%d invocations=%d invocationByCall=%d", name, s.Calls, s.Invocations, s.InvocationByCall)
					}
				}
			}
			// everybody leaves, every timer fires
			for i, p := range run.Mon.AliveSessions() {
				how := []string{model.LeaveGoodbye, model.LeaveDrop}[i%2]
				run.Exec(model.Op{Kind: model.OpLeave, P: p, How: how})
			}
			run.Exec(model.Op{Kind: model.OpAdvance, D: 3 * time.Hour})
			snap := router.VerifSnapshot(run.W.Router)
			c.Hit("LC1")
			if !reflect.DeepEqual(snap, base) {
				c.Fail("LC1", "state left after all sessions ended: "+snapDiff(base, snap), "round %d: after every session ended and 3 virtual hours passed the router still holds state\n baseline: %+v\n now:      %+v", round, base, snap)
			}
			if prev != nil {
				c.Hit("LC2")
				if !reflect.DeepEqual(snap, prev) {
					c.Fail("LC2", "state grows across churn rounds: "+snapDiff(prev, snap), "snapshot after round %d differs from the previous round\n before: %+v\n now:    %+v", round, prev, snap)
				}
			}
			prev = snap
		}
		c.Add("steps", float64(run.Steps))
		run.Finish()
	})
	if panicText != "" {
		c.Fail("RB1", "bubble panic: "+firstLine(panicText), "%s", panicText)
	}
	return
}

// shiftOp moves every puppet index of an op by offset (churn rounds re-join fresh puppets).
func shiftOp(op model.Op, offset int) model.Op {
	if offset == 0 {
		return op
	}
	op.P += offset
	var sh func(v any) any
	sh = func(v any) any {
		switch x := v.(type) {
		case model.Ref:
			if x.Kind == "sid" || x.Kind == "inv" {
				x.P += offset
			}
			return x
		case []model.Ref:
			out := make([]model.Ref, len(x))
			for i, r := range x {
				out[i] = sh(r).(model.Ref)
			}
			return out
		case []any:
			out := make([]any, len(x))
			for i, e := range x {
				out[i] = sh(e)
			}
			return out
		case map[string]any:
			out := make(map[string]any, len(x))
			for k, e := range x {
				out[k] = sh(e)
			}
			return out
		}
		return v
	}
	op.Target = sh(op.Target).(model.Ref)
	if op.Opts != nil {
		op.Opts = sh(op.Opts).(map[string]any)
	}
	if op.Args != nil {
		op.Args = sh(op.Args).([]any)
	}
	return op
}

func snapDiff(a, b map[string]router.VerifRealmSnapshot) string {
	out := ""
	for name, sa := range a {
		sb := b[name]
		va, vb := reflect.ValueOf(sa), reflect.ValueOf(sb)
		for i := 0; i < va.NumField(); i++ {
			if va.Field(i).Int() != vb.Field(i).Int() {
				out += fmt.Sprintf("%s%+d ", va.Type().Field(i).Name, vb.Field(i).Int()-va.Field(i).Int())
			}
		}
	}
	if len(out) > 100 {
		out = out[:100]
	}
	return out
}

func runC05(c *Case) {
	// phase A: generate the base script adaptively
	var rr *rpcRun
	genViol := len(c.Viol)
	panicText := c.Bubble(func() {
		rr = runRPCScript(c, c05Weights, false)
		if rr.run != nil {
			rr.run.Finish()
		}
	})
	if panicText != "" {
		c.Fail("RB1", "bubble panic: "+firstLine(panicText), "%s", panicText)
	}
	if rr == nil || rr.run == nil {
		return
	}
	c.Key = rr.key()
	steps := rr.steps
	nPup := 0
	for _, st := range steps {
		if st.Join != nil {
			nPup++
		}
	}
	_ = genViol
	realm := rr.realm
	if c.Index%4 == 3 {
		// growth across churn rounds
		c05Replay(c, realm, steps, nil, 6)
		c.NT = true
		c.Sample = map[string]any{"kind": "churn-rounds", "rounds": 6, "sessions": puppetStrings(rr.setups), "script": clip(rr.script, 40)}
		return
	}
	victim := 1 + c.Rng.IntN(nPup-1)
	killer := 0
	points, ntPoints := 0, 0
	for k := nPup; k <= len(steps); k++ {
		for _, way := range c05Ways {
			way := way
			fired := false
			inject := func(at int, run *Runner) {
				if at != k || fired {
					return
				}
				fired = true
				if s := run.Mon.Sess[victim]; s == nil || !s.Alive {
					return
				}
				if run.Mon.Holds(victim) {
					ntPoints++
				}
				if way == "kill" {
					kw := map[string]any{}
					if rs := killReasons[(k+victim)%len(killReasons)]; rs != "" {
						kw["reason"] = rs
					}
					run.Exec(model.Op{Kind: model.OpMetaCall, P: killer, Req: 9000 + uint64(k), URI: "wamp.session.kill", Args: []any{model.Ref{Kind: "sid", P: victim}}, Kw: kw})
				} else {
					run.Exec(model.Op{Kind: model.OpLeave, P: victim, How: way})
				}
			}
			before := len(c.Viol)
			c05Replay(c, realm, steps, inject, 1)
			points++
			if len(c.Viol) > before {
				for i := before; i < len(c.Viol); i++ {
					c.Viol[i].Detail = fmt.Sprintf("[injection: session P%d ended by %s before step %d of %d] ", victim, way, k, len(steps)) + c.Viol[i].Detail
				}
				if len(c.Viol) > 12 {
					break
				}
			}
		}
		if len(c.Viol) > 12 {
			break
		}
	}
	c.Add("injection_points", float64(points))
	c.Add("nontrivial_injection_points", float64(ntPoints))
	c.NT = ntPoints > 0
	if c.Index < 3 || len(c.Viol) > 0 {
		c.Sample = map[string]any{"kind": "departure-injection", "victim": victim, "ways": c05Ways, "injection_points": points,
			"sessions": puppetStrings(rr.setups), "script": clip(rr.script, 40)}
	}
}
