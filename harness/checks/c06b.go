package checks

import (
	"fmt"
	"runtime"
	"time"

	"github.com/gammazero/nexus/v3/router"
	"github.com/gammazero/nexus/v3/wamp"

	"verif/harness/sim"
)

// runC06Storm is the second workload of C06 (every 5th case): many clients
// send HELLO at the very moment RemoveRealm / Close runs, with no quiescence in
// between and GOMAXPROCS 1, 2 or 4, so that attach requests are caught at every
// point between the realm lookup and the start of the session handler. Every
// client must end up welcomed-and-then-told/disconnected or refused (ABORT or
// transport closed), the shutdown returns, nothing is left behind, and the
// worker does not crash.
func runC06Storm(c *Case) {
	r := c.Rng
	procs := pick(r, []int{1, 2, 4})
	nJoin := 30 + r.IntN(120)
	removeRealm := chance(r, 50)
	delayUS := pick(r, []int{0, 0, 1, 5, 20}) // virtual microseconds between the HELLOs and the shutdown call
	welcomed, refused := 0, 0
	panicText := c.Bubble(func() {
		old := runtime.GOMAXPROCS(procs)
		defer runtime.GOMAXPROCS(old)
		cfg := &router.Config{RealmConfigs: []*router.RealmConfig{
			{URI: "realm1", AnonymousAuth: true, AllowDisclose: true},
			{URI: "bystander", AnonymousAuth: true},
		}}
		w, err := sim.NewWorld(cfg)
		if err != nil {
			c.Fail("HARNESS", "world", "cannot create world: %v", err)
			return
		}
		var joiners []*sim.Puppet
		for i := 0; i < nJoin; i++ {
			joiners = append(joiners, w.AddPuppet(sim.PuppetSpec{Kind: randomKind(r, 85)}))
		}
		w.Wait()
		for _, j := range joiners {
			j.Send(&wamp.Hello{Realm: "realm1", Details: wamp.Dict{"roles": sim.AllFeatures()}})
		}
		if delayUS > 0 {
			time.Sleep(time.Duration(delayUS) * time.Microsecond)
		}
		shutdown := func() { w.Router.Close() }
		if removeRealm {
			shutdown = func() { w.Router.RemoveRealm("realm1") }
		}
		c.Hit("SD1")
		returned := w.RunBlocked(shutdown, time.Second, 10*time.Second, time.Minute)
		if !removeRealm {
			w.MarkClosed()
		}
		if !returned {
			c.Fail("SD1", "shutdown did not return", "%s called while %d clients were sending HELLO did not return within 71 virtual seconds", map[bool]string{true: "RemoveRealm", false: "Close"}[removeRealm], nJoin)
		}
		w.Advance(10 * time.Second)
		for _, j := range joiners {
			c.Hit("SD3")
			wel, told, closed := false, false, false
			for _, o := range j.Log() {
				switch m := o.Msg.(type) {
				case *wamp.Welcome:
					wel = true
				case *wamp.Goodbye:
					told = true
					_ = m
				case *wamp.Abort:
					told = true
				}
				closed = closed || o.Closed
			}
			if wel {
				welcomed++
			} else {
				refused++
			}
			if returned && !told && !closed {
				c.Fail("SD3", "client joining during shutdown neither told nor disconnected", "P%d (%s) sent HELLO as the shutdown began (welcomed=%v) and then saw neither GOODBYE/ABORT nor its transport closing: %s", j.Idx, j.Kind, wel, obsString(j.Log(), 3))
			}
		}
		rep := w.Teardown()
		if !rep.CloseReturned {
			c.Fail("SD1", "router close did not return", "Router.Close() at teardown did not return")
		}
		c.Hit("SD5")
		for _, g := range rep.Leaked {
			c.Fail("SD5", "goroutine left after close: "+leakSig(g), "goroutine with nexus frames still alive 2 virtual hours after the shutdown:\n%s", g)
		}
	})
	if panicText != "" {
		c.Fail("SD2", "bubble panic: "+firstLine(panicText), "%s", panicText)
	}
	c.NT = welcomed > 0 && refused > 0
	c.Add("storm_welcomed", float64(welcomed))
	c.Add("storm_refused", float64(refused))
	c.Key = fmt.Sprintf("storm procs=%d joiners=%d remove=%v delay=%dus seed=%d", procs, nJoin, removeRealm, delayUS, c.Index)
	c.Sample = map[string]any{"workload": "join storm at shutdown", "gomaxprocs": procs, "joiners": nJoin, "RemoveRealm": removeRealm, "welcomed": welcomed, "refused": refused}
}
