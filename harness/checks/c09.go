package checks

import (
	"crypto/ed25519"
	"crypto/hmac"
	"crypto/sha256"
	"encoding/base64"
	"encoding/hex"
	"encoding/json"
	"errors"
	"fmt"
	"sort"
	"strings"
	"time"

	"golang.org/x/crypto/pbkdf2"

	"github.com/gammazero/nexus/v3/router"
	"github.com/gammazero/nexus/v3/router/auth"
	"github.com/gammazero/nexus/v3/wamp"

	"verif/harness/canon"
	"verif/harness/model"
	"verif/harness/sim"
)

// C09 — only authenticated clients join, under router-assigned identity.
// Engine "bubble": every handshake is judged by a reference predicate written
// from the statement, with the harness's own HMAC / PBKDF2 / ed25519 code.

type c09User struct {
	role   string
	secret string // wampcra secret / ticket
	salt   string // non-empty: salted wampcra
	priv   ed25519.PrivateKey
	pub    ed25519.PublicKey
}

var c09Users = map[string]*c09User{}

func init() {
	for i, name := range []string{"alice", "bob", "carol"} {
		seed := sha256.Sum256([]byte("c09-" + name))
		priv := ed25519.NewKeyFromSeed(seed[:])
		u := &c09User{role: []string{"admin", "user", "guest"}[i], secret: name + "-s3cret", priv: priv, pub: priv.Public().(ed25519.PublicKey)}
		if name == "bob" {
			u.salt = "salt-for-bob"
		}
		c09Users[name] = u
	}
	{
		seed := sha256.Sum256([]byte("c09-dave"))
		priv := ed25519.NewKeyFromSeed(seed[:])
		c09Users["dave"] = &c09User{role: "", secret: "dave-s3cret", priv: priv, pub: priv.Public().(ed25519.PublicKey)}
	}
	register(&Prop{
		ID: "C09", Cases: rpcCases(1000, 20000), Batch: rpcBatch,
		Run: runC09,
		Rule: "each case: realm with a random subset of {anonymous, wampcra (plain and salted users), ticket, cryptosign} authenticators, RequireLocalAuth on/off, realm template on/off; 14 handshakes by fresh " +
			"peers over local/rawsocket/websocket: first message of any type, realm existing/empty/absent/template-creatable, authmethods lists with unknown/empty/ill-typed entries, authid known/unknown/missing, " +
			"roles valid/empty/ill-typed, identity keys smuggled in HELLO details; AUTHENTICATE valid, signed with a wrong key, replayed verbatim from an earlier successful handshake, truncated, bit-flipped, " +
			"empty, garbage, another message type, or silence until after the timeout; oracle: WELCOME iff the reference predicate holds (signatures verified by the harness's own code against the CHALLENGE of " +
			"this handshake), rejected peers are inert (observer and session count), identity fields in WELCOME, on_join and wamp.session.get equal what the authenticator assigned; " +
			"non-trivial = case with >=1 handshake that reached CHALLENGE and >=1 HELLO with smuggled identity keys",
		Required: []string{"AU1", "AU2", "AU3", "AU4"},
		Level:    "exploration",
	})
}

type c09Keys struct{}

func (c09Keys) AuthKey(authid, method string) ([]byte, error) {
	u := c09Users[authid]
	if u == nil {
		return nil, errors.New("no such user")
	}
	switch method {
	case "cryptosign":
		return []byte(u.pub), nil
	case "wampcra":
		if u.salt != "" {
			dk := pbkdf2.Key([]byte(u.secret), []byte(u.salt), 1000, 32, sha256.New)
			return []byte(base64.StdEncoding.EncodeToString(dk)), nil
		}
	}
	return []byte(u.secret), nil
}
func (c09Keys) PasswordInfo(authid string) (string, int, int) {
	if u := c09Users[authid]; u != nil && u.salt != "" {
		return u.salt, 32, 1000
	}
	return "", 0, 0
}
func (c09Keys) AuthRole(authid string) (string, error) {
	if u := c09Users[authid]; u != nil && u.role != "" {
		return u.role, nil
	}
	return "", errors.New("no such user")
}
func (c09Keys) Provider() string { return "c09store" }

// sign computes the correct AUTHENTICATE signature for a challenge.
func c09Sign(method, authid string, ch *wamp.Challenge, wrongKey bool) string {
	u := c09Users[authid]
	if u == nil {
		u = &c09User{secret: "x"}
		wrongKey = true
	}
	switch method {
	case "ticket":
		if wrongKey {
			return u.secret + "x"
		}
		return u.secret
	case "wampcra":
		chal, _ := canon.AsStr(ch.Extra["challenge"])
		key := []byte(u.secret)
		if salt, _ := canon.AsStr(ch.Extra["salt"]); salt != "" {
			iters, _ := canon.AsID(ch.Extra["iterations"])
			keylen, _ := canon.AsID(ch.Extra["keylen"])
			dk := pbkdf2.Key([]byte(u.secret), []byte(salt), int(iters), int(keylen), sha256.New)
			key = []byte(base64.StdEncoding.EncodeToString(dk))
		}
		if wrongKey {
			key = append(key, 'x')
		}
		mac := hmac.New(sha256.New, key)
		mac.Write([]byte(chal))
		return base64.StdEncoding.EncodeToString(mac.Sum(nil))
	case "cryptosign":
		hx, _ := canon.AsStr(ch.Extra["challenge"])
		chal, _ := hex.DecodeString(hx)
		priv := u.priv
		if wrongKey || priv == nil {
			seed := sha256.Sum256([]byte("wrong"))
			priv = ed25519.NewKeyFromSeed(seed[:])
		}
		sig := ed25519.Sign(priv, chal)
		return hex.EncodeToString(append(sig, chal...))
	}
	return ""
}

func runC09(c *Case) {
	r := c.Rng
	all := []string{"anonymous", "wampcra", "ticket", "cryptosign"}
	configured := map[string]bool{}
	for _, m := range all {
		if chance(r, 60) {
			configured[m] = true
		}
	}
	requireLocal := chance(r, 40)
	withTemplate := chance(r, 40)
	var script []string
	challenged, smuggledN := 0, 0
	panicText := c.Bubble(func() {
		mk := func(uri string) *router.RealmConfig {
			rc := &router.RealmConfig{URI: wamp.URI(uri), AnonymousAuth: configured["anonymous"], RequireLocalAuth: requireLocal, EnableMetaKill: true}
			if configured["wampcra"] {
				rc.Authenticators = append(rc.Authenticators, auth.NewCRAuthenticator(c09Keys{}, time.Minute))
			}
			if configured["ticket"] {
				rc.Authenticators = append(rc.Authenticators, auth.NewTicketAuthenticator(c09Keys{}, time.Minute))
			}
			if configured["cryptosign"] {
				rc.Authenticators = append(rc.Authenticators, auth.NewCryptoSignAuthenticator(c09Keys{}, time.Minute))
			}
			return rc
		}
		cfg := &router.Config{RealmConfigs: []*router.RealmConfig{mk("realm1")}}
		if withTemplate {
			cfg.RealmTemplate = mk("")
		}
		w, err := sim.NewWorld(cfg)
		if err != nil {
			c.Fail("HARNESS", "world", "cannot create world: %v", err)
			return
		}
		// observer: an in-process trusted session when allowed, else anonymous/ticket... use a second realm-free trick:
		// the observer attaches through a realm configuration that always lets it in.
		obsKind := sim.Local
		obs := w.AddPuppet(sim.PuppetSpec{Kind: obsKind})
		hello := wamp.Dict{"roles": sim.AllFeatures()}
		if requireLocal {
			// needs a configured method: try ticket/wampcra/cryptosign/anonymous in turn by doing a proper handshake
			hello["authid"] = "alice"
			var methods wamp.List
			for _, m := range []string{"anonymous", "ticket", "wampcra", "cryptosign"} {
				if configured[m] {
					methods = append(methods, m)
					break
				}
			}
			hello["authmethods"] = methods
		}
		obs.Send(&wamp.Hello{Realm: "realm1", Details: hello})
		w.Wait()
		for _, o := range obs.Take() {
			if ch, ok := o.Msg.(*wamp.Challenge); ok {
				obs.Send(&wamp.Authenticate{Signature: c09Sign(ch.AuthMethod, "alice", ch, false), Extra: wamp.Dict{}})
				w.Wait()
			}
			if wl, ok := o.Msg.(*wamp.Welcome); ok {
				obs.SID = wl.ID
			}
		}
		for _, o := range obs.Take() {
			if wl, ok := o.Msg.(*wamp.Welcome); ok {
				obs.SID = wl.ID
			}
		}
		haveObs := obs.SID != 0
		if haveObs {
			obs.Send(&wamp.Subscribe{Request: 1, Options: wamp.Dict{"match": "prefix"}, Topic: ""})
			w.Wait()
			obs.Take()
		}
		attached := 0
		if haveObs {
			attached = 1
		}
		obsReq := uint64(10)
		sessionCount := func() int {
			if !haveObs {
				return -1
			}
			obsReq++
			obs.Send(&wamp.Call{Request: wamp.ID(obsReq), Options: wamp.Dict{}, Procedure: "wamp.session.count"})
			w.Wait()
			n := -1
			for _, o := range obs.Take() {
				if res, ok := o.Msg.(*wamp.Result); ok && uint64(res.Request) == obsReq && len(res.Arguments) > 0 {
					if v, ok := canon.AsID(res.Arguments[0]); ok {
						n = int(v)
					}
				}
			}
			return n
		}
		replayStore := map[string]string{} // method|authid -> signature of a successful handshake
		focusMethod, focusUser := "", pick(r, []string{"alice", "bob", "carol", "dave"})
		for _, m := range []string{"cryptosign", "wampcra", "ticket"} {
			if configured[m] && (focusMethod == "" || chance(r, 50)) {
				focusMethod = m
			}
		}
		overlap := func(hsN int) {
			// two overlapping handshakes of the same user: the response made for B's
			// challenge is presented in A's handshake and must be refused there
			a := w.AddPuppet(sim.PuppetSpec{Kind: pick(r, []sim.Kind{sim.RawJSON, sim.WSMsgpack, sim.RawCBOR})})
			hello := func() *wamp.Hello {
				return &wamp.Hello{Realm: "realm1", Details: wamp.Dict{"roles": sim.AllFeatures(), "authmethods": wamp.List{focusMethod}, "authid": focusUser}}
			}
			a.Send(hello())
			w.Wait()
			var chA *wamp.Challenge
			for _, o := range a.Take() {
				if ch, ok := o.Msg.(*wamp.Challenge); ok {
					chA = ch
				}
			}
			if chA == nil {
				return
			}
			b := w.AddPuppet(sim.PuppetSpec{Kind: pick(r, []sim.Kind{sim.RawJSON, sim.WSMsgpack, sim.RawCBOR})})
			b.Send(hello())
			w.Wait()
			var sigB string
			for _, o := range b.Take() {
				if ch, ok := o.Msg.(*wamp.Challenge); ok {
					sigB = c09Sign(focusMethod, focusUser, ch, false)
				}
			}
			if sigB == "" {
				return
			}
			b.Send(&wamp.Authenticate{Signature: sigB, Extra: wamp.Dict{}})
			w.Wait()
			for _, o := range b.Take() {
				if _, ok := o.Msg.(*wamp.Welcome); ok {
					attached++
				}
			}
			a.Send(&wamp.Authenticate{Signature: sigB, Extra: wamp.Dict{}})
			w.Wait()
			c.Hit("AU3")
			desc := fmt.Sprintf("hs%d overlapping %s handshakes of %q: response for B's challenge presented in A", hsN, focusMethod, focusUser)
			script = append(script, desc)
			for _, o := range a.Take() {
				if _, ok := o.Msg.(*wamp.Welcome); ok {
					if focusMethod != "ticket" {
						c.Fail("AU3", "response for another handshake's challenge accepted ("+focusMethod+")", "%s: A was sent WELCOME: %s", desc, o.Snap)
					}
					attached++
				}
			}
			if haveObs {
				obs.Take()
			}
		}
		for hsN := 0; hsN < 14; hsN++ {
			if focusMethod != "" && focusMethod != "ticket" && c09Users[focusUser].role != "" && chance(r, 12) {
				overlap(hsN)
				continue
			}
			kind := randomKind(r, 65)
			// ---- HELLO
			realm := pick(r, []string{"realm1", "realm1", "realm1", "realm1", "", "nope", "tmpl.x", "bad realm"})
			var methods wamp.List
			for n := r.IntN(4); n > 0; n-- {
				methods = append(methods, pick(r, []any{"anonymous", "wampcra", "ticket", "cryptosign", "bogus", "", 5}))
			}
			authid := pick(r, []string{"alice", "bob", "carol", "dave", "mallory", ""})
			if focusMethod != "" && chance(r, 50) {
				// repeated handshakes of one (method, authid) pair, so that transcripts can be replayed
				methods = wamp.List{focusMethod}
				authid = focusUser
				kind = randomKind(r, 100)
				if kind == sim.Local {
					kind = sim.RawJSON
				}
			}
			details := wamp.Dict{}
			rolesKind := r.IntN(10)
			switch {
			case rolesKind < 7:
				details["roles"] = sim.AllFeatures()
			case rolesKind == 7:
				details["roles"] = wamp.Dict{}
			case rolesKind == 8:
				details["roles"] = "publisher"
			}
			if len(methods) > 0 || chance(r, 20) {
				details["authmethods"] = methods
			}
			if authid != "" {
				details["authid"] = authid
			}
			smuggled := chance(r, 40)
			if smuggled {
				smuggledN++
				details["authrole"] = "admin-smuggled"
				details["authmethod"] = "smuggled"
				details["authprovider"] = "smuggled"
				details["session"] = 1
			}
			firstIsHello := chance(r, 88)
			if len(methods) == 1 && methods[0] == any(focusMethod) && authid == focusUser {
				firstIsHello = true
				realm = "realm1"
				details["roles"] = sim.AllFeatures()
			}
			p := w.AddPuppet(sim.PuppetSpec{Kind: kind})
			local := kind == sim.Local
			// ---- reference predicate up to the challenge
			hasRole := false
			if rd, ok := canon.AsDict(details["roles"]); ok {
				for _, k := range []string{"publisher", "subscriber", "caller", "callee"} {
					if _, ok := rd[k]; ok {
						hasRole = true
					}
				}
			}
			realmOK := realm == "realm1" || (withTemplate && realm != "" && model.ValidURI(realm, false, model.Exact))
			var offered []string
			for _, mv := range methods {
				if s, ok := mv.(string); ok && s != "" {
					offered = append(offered, s)
				}
			}
			if len(methods) == 0 {
				offered = []string{"anonymous"}
			}
			chosen := ""
			for _, mth := range offered {
				if configured[mth] {
					chosen = mth
					break
				}
			}
			expectWelcome, expectChallenge := false, false
			switch {
			case !firstIsHello || !realmOK || !hasRole:
			case local && !requireLocal:
				expectWelcome = true
				chosen = "local"
			case chosen == "":
			case chosen == "anonymous":
				expectWelcome = true
			case authid == "":
			case chosen == "cryptosign" && (c09Users[authid] == nil || c09Users[authid].role == ""):
			default:
				expectChallenge = true
			}
			desc := fmt.Sprintf("hs%d %s realm=%q methods=%v authid=%q roles=%d smuggled=%v firstHello=%v chosen=%s", hsN, kind, realm, methods, authid, rolesKind, smuggled, firstIsHello, chosen)
			if firstIsHello {
				p.Send(&wamp.Hello{Realm: wamp.URI(realm), Details: details})
			} else {
				p.Send(pick(r, []wamp.Message{&wamp.Subscribe{Request: 1, Options: wamp.Dict{}, Topic: "a"}, &wamp.Authenticate{Signature: "x", Extra: wamp.Dict{}},
					&wamp.Welcome{ID: 1, Details: wamp.Dict{}}, &wamp.Goodbye{Details: wamp.Dict{}, Reason: "x"}, &wamp.Call{Request: 1, Options: wamp.Dict{}, Procedure: "wamp.session.count"}}))
			}
			w.Wait()
			var welcome *wamp.Welcome
			var challenge *wamp.Challenge
			scan := func() {
				for _, o := range p.Take() {
					switch m := o.Msg.(type) {
					case *wamp.Welcome:
						welcome = m
					case *wamp.Challenge:
						challenge = m
					}
				}
			}
			scan()
			if challenge != nil {
				challenged++
				if !expectChallenge {
					// a CHALLENGE in itself grants nothing; only note it
					c.Add("unexpected_challenges", 1)
				}
				if challenge.AuthMethod != chosen {
					c.Fail("AU1", "challenge for another method", "%s: CHALLENGE for method %q, the first configured offered method is %q", desc, challenge.AuthMethod, chosen)
				}
				// ---- AUTHENTICATE variants
				valid := c09Sign(chosen, authid, challenge, false)
				rkey := chosen + "|" + authid
				variant := pick(r, []string{"valid", "valid", "valid", "wrongkey", "replay", "replay", "truncated", "bitflip", "empty", "garbage", "othermsg", "silence", "derived", "derived"})
				if variant == "derived" && chosen != "wampcra" {
					variant = "wrongkey"
				}
				if _, have := replayStore[rkey]; variant == "replay" && !have {
					variant = "valid"
				}
				sig := valid
				good := c09Users[authid] != nil
				switch variant {
				case "wrongkey":
					sig, good = c09Sign(chosen, authid, challenge, true), false
				case "replay":
					sig = replayStore[rkey]
					good = good && chosen == "ticket" // a ticket is by definition valid in every handshake (I9)
					c.Hit("AU3")
				case "truncated":
					if len(sig) > 3 {
						sig = sig[:len(sig)-3]
					}
					good = false
				case "bitflip":
					if len(sig) > 5 {
						b := []byte(sig)
						if b[4] == 'A' || b[4] == 'a' {
							b[4] = 'b'
						} else {
							b[4] = 'a'
						}
						sig = string(b)
					}
					good = good && sig == valid
				case "derived":
					// a key that anybody can compute from the CHALLENGE itself (one of the fields of the challenge string,
					// the string, the salt): whoever is asking, known authid or not, this must never be accepted
					chal, _ := canon.AsStr(challenge.Extra["challenge"])
					keys := []string{chal, authid, ""}
					var fields map[string]any
					if json.Unmarshal([]byte(chal), &fields) == nil {
						for _, v := range fields {
							keys = append(keys, fmt.Sprint(v))
						}
					}
					if salt, _ := canon.AsStr(challenge.Extra["salt"]); salt != "" {
						keys = append(keys, salt)
					}
					sort.Strings(keys)
					key := pick(r, keys)
					mac := hmac.New(sha256.New, []byte(key))
					mac.Write([]byte(chal))
					sig, good = base64.StdEncoding.EncodeToString(mac.Sum(nil)), false
					if u := c09Users[authid]; u != nil && key == u.secret {
						sig, good = valid, c09Users[authid] != nil
					}
				case "empty":
					sig, good = "", false
				case "garbage":
					sig, good = pick(r, []string{"zzzz", "%%%", strings.Repeat("0", 192), strings.Repeat("ab", 95)}), false
				}
				desc += " auth=" + variant
				switch variant {
				case "othermsg":
					p.Send(&wamp.Hello{Realm: "realm1", Details: details})
					good = false
				case "silence":
					w.Advance(61 * time.Second)
					good = false
				default:
					p.Send(&wamp.Authenticate{Signature: sig, Extra: wamp.Dict{}})
				}
				w.Wait()
				scan()
				expectWelcome = expectChallenge && good
				if welcome != nil && good && variant == "valid" {
					replayStore[rkey] = sig
				}
			}
			if challenge != nil && welcome == nil && strings.Contains(desc, "auth=silence") {
				_ = 0
			}
			script = append(script, desc)
			c.Tracef("%s => welcome=%v (expected %v)", desc, welcome != nil, expectWelcome)
			c.Hit("AU1")
			if welcome != nil && !expectWelcome {
				rule, sig := "AU1", "WELCOME without a satisfied predicate: "+variantOf(desc)
				if strings.Contains(desc, "auth=replay") {
					rule, sig = "AU3", "replayed "+chosen+" response accepted"
				}
				c.Fail(rule, sig, "%s: the peer was sent WELCOME although the handshake predicate is false: %s", desc, canon.Msg(welcome))
			}
			if welcome == nil && expectWelcome {
				c.Fail("AU1", "legitimate handshake refused: "+variantOf(desc), "%s: the handshake satisfies every condition but no WELCOME came; peer saw: %s", desc, obsString(p.Log(), 5))
			}
			if welcome != nil {
				if realm == "realm1" {
					attached++
				}
				// ---- AU4: identity comes from router and authenticator
				c.Hit("AU4")
				wantRole, wantMethod, wantProv := "", chosen, "c09store"
				wantID := authid
				switch chosen {
				case "local":
					wantRole, wantMethod, wantProv = "trusted", "local", "static"
				case "anonymous":
					wantRole, wantProv, wantID = "anonymous", "static", "*"
				default:
					if u := c09Users[authid]; u != nil {
						wantRole = u.role
						if u.role == "" {
							wantRole = "?"
						}
					}
				}
				check := func(where string, d map[string]any) {
					if v, _ := canon.AsStr(d["authrole"]); wantRole == "?" {
						if v == "admin-smuggled" {
							c.Fail("AU4", "smuggled authrole recorded in "+where, "%s: %s shows the authrole from HELLO details (%q); the key store assigns no role to this user", desc, where, v)
						}
					} else if v != wantRole {
						c.Fail("AU4", "authrole not the assigned one in "+where, "%s: %s shows authrole=%q, assigned %q", desc, where, v, wantRole)
					}
					if v, _ := canon.AsStr(d["authmethod"]); v != wantMethod {
						c.Fail("AU4", "authmethod not the assigned one in "+where, "%s: %s shows authmethod=%q, assigned %q", desc, where, v, wantMethod)
					}
					if v, _ := canon.AsStr(d["authprovider"]); v != wantProv {
						c.Fail("AU4", "authprovider not the assigned one in "+where, "%s: %s shows authprovider=%q, assigned %q", desc, where, v, wantProv)
					}
					if v, _ := canon.AsStr(d["authid"]); wantID != "*" && wantID != "" && v != wantID {
						c.Fail("AU4", "authid not the assigned one in "+where, "%s: %s shows authid=%q, assigned %q", desc, where, v, wantID)
					}
					if where != "WELCOME" {
						if v, ok := canon.AsID(d["session"]); !ok || v != uint64(welcome.ID) {
							c.Fail("AU4", "session id not the assigned one in "+where, "%s: %s shows session=%v, WELCOME carried %d", desc, where, d["session"], welcome.ID)
						}
					}
				}
				wd, _ := canon.AsDict(map[string]any(welcome.Details))
				check("WELCOME", wd)
				if uint64(welcome.ID) == 1 {
					c.Fail("AU4", "smuggled session id", "%s: WELCOME carries the session id from HELLO details", desc)
				}
				if haveObs && realm == "realm1" {
					for _, o := range obs.Take() {
						if ev, ok := o.Msg.(*wamp.Event); ok {
							if t, _ := canon.AsStr(ev.Details["topic"]); t == "wamp.session.on_join" && len(ev.Arguments) > 0 {
								if d, ok := canon.AsDict(ev.Arguments[0]); ok {
									check("on_join", d)
								}
							}
						}
					}
					obsReq++
					obs.Send(&wamp.Call{Request: wamp.ID(obsReq), Options: wamp.Dict{}, Procedure: "wamp.session.get", Arguments: wamp.List{welcome.ID}})
					w.Wait()
					for _, o := range obs.Take() {
						if res, ok := o.Msg.(*wamp.Result); ok && uint64(res.Request) == obsReq && len(res.Arguments) > 0 {
							if d, ok := canon.AsDict(res.Arguments[0]); ok {
								check("wamp.session.get", d)
							}
						}
					}
				}
			} else {
				// ---- AU2: a rejected peer is inert
				c.Hit("AU2")
				p.Send(&wamp.Subscribe{Request: 2, Options: wamp.Dict{}, Topic: "probe.topic"})
				p.Send(&wamp.Publish{Request: 3, Options: wamp.Dict{"acknowledge": true}, Topic: "probe.topic", Arguments: wamp.List{"from-rejected"}})
				p.Send(&wamp.Call{Request: 4, Options: wamp.Dict{}, Procedure: "wamp.session.count"})
				w.Wait()
				for _, o := range p.Take() {
					switch o.Msg.(type) {
					case *wamp.Subscribed, *wamp.Published, *wamp.Result, *wamp.Event:
						c.Fail("AU2", "rejected peer is served", "%s: after being refused the peer was still served: %s", desc, o.Snap)
					}
				}
				if haveObs {
					for _, o := range obs.Take() {
						if ev, ok := o.Msg.(*wamp.Event); ok {
							c.Fail("AU2", "rejected peer caused an event", "%s: the observer received %s", desc, canon.Msg(ev))
						}
					}
				}
				if !p.Closed() && challenge == nil {
					// the transport of a refused peer is closed (ABORT is best effort)
					w.Advance(6 * time.Second)
					if !p.Closed() {
						c.Fail("AU2", "refused peer stays connected", "%s: neither ABORT nor a closed transport after the refusal; peer saw: %s", desc, obsString(p.Log(), 4))
					}
				}
			}
			if n := sessionCount(); n >= 0 && n != attached {
				c.Fail("AU2", "session count differs from the number of welcomed peers", "%s: wamp.session.count=%d, %d peers were welcomed so far", desc, n, attached)
				attached = n
			}
			if haveObs {
				obs.Take()
			}
		}
		rep := w.Teardown()
		if !rep.CloseReturned {
			c.Fail("SD1", "router close did not return", "Router.Close() did not return")
		}
		for _, g := range rep.Leaked {
			c.Fail("SD5", "goroutine left after close: "+leakSig(g), "%s", g)
		}
	})
	if panicText != "" {
		c.Fail("RB1", "bubble panic: "+firstLine(panicText), "%s", panicText)
	}
	c.NT = challenged > 0 && smuggledN > 0
	c.Add("handshakes", float64(len(script)))
	c.Add("handshakes_reaching_challenge", float64(challenged))
	var conf []string
	for _, m := range all {
		if configured[m] {
			conf = append(conf, m)
		}
	}
	c.Key = fmt.Sprintf("%v local=%v tmpl=%v|%s", conf, requireLocal, withTemplate, strings.Join(script, "\n"))
	if c.Index < 3 || len(c.Viol) > 0 {
		c.Sample = map[string]any{"authenticators": conf, "require_local_auth": requireLocal, "realm_template": withTemplate, "handshakes": clip(script, 20)}
	}
}

func variantOf(desc string) string {
	i := strings.Index(desc, "chosen=")
	if i < 0 {
		return ""
	}
	return desc[i:]
}
