package sim

import (
	"fmt"
	"regexp"
	"runtime"
	"strings"
	"sync"
	"sync/atomic"
	"testing/synctest"
	"time"

	"github.com/gammazero/nexus/v3/router"
)

// LogBuf is a goroutine-safe ring of the router's log lines.
type LogBuf struct {
	mu    sync.Mutex
	lines []string
	max   int
	total int
}

func NewLogBuf(max int) *LogBuf { return &LogBuf{max: max} }

func (l *LogBuf) add(s string) {
	l.mu.Lock()
	l.total++
	if len(l.lines) >= l.max {
		copy(l.lines, l.lines[1:])
		l.lines = l.lines[:len(l.lines)-1]
	}
	l.lines = append(l.lines, strings.TrimRight(s, "\n"))
	l.mu.Unlock()
}
func (l *LogBuf) Print(v ...any)            { l.add(fmt.Sprint(v...)) }
func (l *LogBuf) Println(v ...any)          { l.add(fmt.Sprintln(v...)) }
func (l *LogBuf) Printf(f string, v ...any) { l.add(fmt.Sprintf(f, v...)) }

// Tail returns the last lines logged.
func (l *LogBuf) Tail() []string {
	l.mu.Lock()
	defer l.mu.Unlock()
	return append([]string(nil), l.lines...)
}

// Contains reports whether any retained line contains sub.
func (l *LogBuf) Contains(sub string) bool {
	l.mu.Lock()
	defer l.mu.Unlock()
	for _, s := range l.lines {
		if strings.Contains(s, sub) {
			return true
		}
	}
	return false
}

// World is one real router plus its puppets, living inside a synctest bubble.
type World struct {
	Router  router.Router
	Log     *LogBuf
	Puppets []*Puppet
	start   time.Time
	seq     atomic.Uint64
	closed  bool
}

// NewWorld starts a router with the given configuration. Must be called inside
// a synctest bubble.
func NewWorld(cfg *router.Config) (*World, error) {
	w := &World{Log: NewLogBuf(300), start: time.Now()}
	r, err := router.NewRouter(cfg, w.Log)
	if err != nil {
		return nil, err
	}
	w.Router = r
	synctest.Wait()
	return w, nil
}

// Wait blocks until every goroutine in the bubble is durably blocked.
func (w *World) Wait() { synctest.Wait() }

// Advance moves the virtual clock forward by d and waits for quiescence.
func (w *World) Advance(d time.Duration) {
	time.Sleep(d)
	synctest.Wait()
}

// Now is the virtual time since the world was created.
func (w *World) Now() time.Duration { return time.Since(w.start) }

// RunBlocked runs f in its own goroutine, waits for quiescence (advancing the
// virtual clock by each of the given steps until f returns) and reports whether
// f returned.
func (w *World) RunBlocked(f func(), steps ...time.Duration) bool {
	done := make(chan struct{})
	go func() {
		defer close(done)
		f()
	}()
	synctest.Wait()
	for i := 0; ; i++ {
		select {
		case <-done:
			return true
		default:
		}
		if i >= len(steps) {
			return false
		}
		time.Sleep(steps[i])
		synctest.Wait()
	}
}

var nexusFrame = regexp.MustCompile(`github\.com/gammazero/nexus/v3/(router|transport|client|wamp)[./]`)

// Leaked scans all goroutine stacks for frames of the nexus packages and
// returns the offending goroutine dumps (harness frames excluded).
func Leaked() []string {
	buf := make([]byte, 1<<20)
	for {
		n := runtime.Stack(buf, true)
		if n < len(buf) {
			buf = buf[:n]
			break
		}
		buf = make([]byte, 2*len(buf))
	}
	var out []string
	for _, g := range strings.Split(string(buf), "\n\n") {
		// only goroutines of a bubble: workloads of the live engine run in the same worker process in real
		// time, and their transports may still be winding down when the next (bubble) case scans the stacks
		head, _, _ := strings.Cut(g, "\n")
		if !strings.Contains(head, "synctest bubble") {
			continue
		}
		if nexusFrame.MatchString(g) {
			out = append(out, g)
		}
	}
	return out
}

// LiveNexusGoroutines counts goroutines outside any bubble that have nexus frames (live engine housekeeping).
func LiveNexusGoroutines() int {
	buf := make([]byte, 1<<20)
	for {
		n := runtime.Stack(buf, true)
		if n < len(buf) {
			buf = buf[:n]
			break
		}
		buf = make([]byte, 2*len(buf))
	}
	n := 0
	for _, g := range strings.Split(string(buf), "\n\n") {
		head, _, _ := strings.Cut(g, "\n")
		if !strings.Contains(head, "synctest bubble") && nexusFrame.MatchString(g) {
			n++
		}
	}
	return n
}

// MarkClosed tells Teardown that Router.Close has already been attempted (it
// must not be called a second time when the first call hangs: a goroutine
// blocked on the sync.Once inside Close is not durably blocked, and the bubble
// could never become quiescent again).
func (w *World) MarkClosed() { w.closed = true }

// QuitPuppets makes all puppet goroutines exit.
func (w *World) QuitPuppets() {
	for _, p := range w.Puppets {
		p.Resume()
		p.Quit()
	}
	synctest.Wait()
}

// Teardown closes the router (reporting whether Close returned), ends all
// puppets, runs the clock for two virtual hours and returns leaked nexus
// goroutines.
type TeardownReport struct {
	CloseReturned bool
	Leaked        []string
}

func (w *World) Teardown() TeardownReport {
	var rep TeardownReport
	if !w.closed {
		w.closed = true
		rep.CloseReturned = w.RunBlocked(func() { w.Router.Close() }, 10*time.Second, 2*time.Minute, 10*time.Minute)
	} else {
		rep.CloseReturned = true
	}
	w.QuitPuppets()
	time.Sleep(2 * time.Hour)
	synctest.Wait()
	rep.Leaked = Leaked()
	return rep
}
