// Package sim hosts the real nexus router (and client) inside a
// testing/synctest bubble, with scripted "puppet" sessions attached over
// in-process, rawsocket and websocket transports that are built from channels
// only, so that every blocking point is a durable block the bubble understands.
package sim

import (
	"errors"
	"io"
	"net"
	"sync"
	"time"
)

// half is one direction of a buffered in-memory pipe. All blocking is done on
// channels (durable blocks inside a synctest bubble). Several writers and
// several readers are allowed.
type half struct {
	mu      sync.Mutex
	buf     []byte
	limit   int
	wclosed bool // writer closed: reader sees EOF after draining
	rclosed bool // reader closed: writer gets an error
	rwake   chan struct{}
	wwake   chan struct{}
	wsem    chan struct{} // serialises writers (a Write is atomic wrt. other Writes)
	paused  bool          // reader paused (stalled peer): reads block even when data is there
	total   int64         // bytes ever written
}

func newHalf(limit int) *half {
	return &half{limit: limit, rwake: make(chan struct{}, 1), wwake: make(chan struct{}, 1), wsem: make(chan struct{}, 1)}
}

func wake(c chan struct{}) {
	select {
	case c <- struct{}{}:
	default:
	}
}

var errClosedPipe = errors.New("bufpipe: closed")

func (h *half) read(p []byte, done <-chan struct{}) (int, error) {
	if len(p) == 0 {
		return 0, nil
	}
	for {
		h.mu.Lock()
		if h.paused && !h.rclosed {
			h.mu.Unlock()
			select {
			case <-h.rwake:
			case <-done:
				return 0, errClosedPipe
			}
			continue
		}
		if len(h.buf) > 0 {
			n := copy(p, h.buf)
			h.buf = h.buf[n:]
			if len(h.buf) > 0 {
				wake(h.rwake) // more for other readers
			}
			h.mu.Unlock()
			wake(h.wwake)
			return n, nil
		}
		if h.rclosed {
			h.mu.Unlock()
			return 0, errClosedPipe
		}
		if h.wclosed {
			h.mu.Unlock()
			wake(h.rwake)
			return 0, io.EOF
		}
		h.mu.Unlock()
		select {
		case <-h.rwake:
		case <-done:
			return 0, errClosedPipe
		}
	}
}

func (h *half) write(p []byte, done <-chan struct{}) (int, error) {
	select {
	case h.wsem <- struct{}{}:
	case <-done:
		return 0, errClosedPipe
	}
	defer func() { <-h.wsem }()
	written := 0
	for len(p) > 0 {
		h.mu.Lock()
		if h.wclosed || h.rclosed {
			h.mu.Unlock()
			return written, errClosedPipe
		}
		room := h.limit - len(h.buf)
		if room > 0 {
			n := room
			if n > len(p) {
				n = len(p)
			}
			h.buf = append(h.buf, p[:n]...)
			h.total += int64(n)
			p = p[n:]
			written += n
			h.mu.Unlock()
			wake(h.rwake)
			continue
		}
		h.mu.Unlock()
		select {
		case <-h.wwake:
		case <-done:
			return written, errClosedPipe
		}
	}
	return written, nil
}

func (h *half) closeWrite() {
	h.mu.Lock()
	h.wclosed = true
	h.mu.Unlock()
	wake(h.rwake)
	wake(h.wwake)
}

func (h *half) closeRead() {
	h.mu.Lock()
	h.rclosed = true
	h.buf = nil
	h.mu.Unlock()
	wake(h.rwake)
	wake(h.wwake)
}

func (h *half) setPaused(b bool) {
	h.mu.Lock()
	h.paused = b
	h.mu.Unlock()
	wake(h.rwake)
}

func (h *half) buffered() int {
	h.mu.Lock()
	defer h.mu.Unlock()
	return len(h.buf)
}

// PipeConn is one end of a BufPipe; it implements net.Conn.
type PipeConn struct {
	in, out *half
	once    sync.Once
	done    chan struct{}
	name    string
}

// BufPipe returns two connected net.Conn ends. Each direction buffers up to
// limit bytes; a writer blocks (durably) when the buffer is full, like a TCP
// socket with a finite kernel buffer.
func BufPipe(limit int) (*PipeConn, *PipeConn) {
	if limit <= 0 {
		limit = 64 << 10
	}
	a2b, b2a := newHalf(limit), newHalf(limit)
	a := &PipeConn{in: b2a, out: a2b, done: make(chan struct{}), name: "a"}
	b := &PipeConn{in: a2b, out: b2a, done: make(chan struct{}), name: "b"}
	return a, b
}

func (c *PipeConn) Read(p []byte) (int, error)  { return c.in.read(p, c.done) }
func (c *PipeConn) Write(p []byte) (int, error) { return c.out.write(p, c.done) }

// Close closes both directions as seen from this end.
func (c *PipeConn) Close() error {
	c.once.Do(func() {
		close(c.done)
		c.out.closeWrite()
		c.in.closeRead()
	})
	return nil
}

// Closed reports whether Close was called on this end.
func (c *PipeConn) Closed() bool {
	select {
	case <-c.done:
		return true
	default:
		return false
	}
}

// PauseRead makes Read on this end block (even with data buffered) until
// PauseRead(false); models a peer that stopped reading.
func (c *PipeConn) PauseRead(b bool) { c.in.setPaused(b) }

// PendingOut is the number of bytes written by this end not yet read by the other.
func (c *PipeConn) PendingOut() int { return c.out.buffered() }

// TotalOut is the number of bytes ever written by this end.
func (c *PipeConn) TotalOut() int64 {
	c.out.mu.Lock()
	defer c.out.mu.Unlock()
	return c.out.total
}

type pipeAddr string

func (a pipeAddr) Network() string { return "bufpipe" }
func (a pipeAddr) String() string  { return string(a) }

func (c *PipeConn) LocalAddr() net.Addr                { return pipeAddr(c.name) }
func (c *PipeConn) RemoteAddr() net.Addr               { return pipeAddr(c.name + "-peer") }
func (c *PipeConn) SetDeadline(t time.Time) error      { return nil }
func (c *PipeConn) SetReadDeadline(t time.Time) error  { return nil }
func (c *PipeConn) SetWriteDeadline(t time.Time) error { return nil }

// TakeAvailable removes and returns the bytes written by the other end that
// have not been read yet, without blocking.
func (c *PipeConn) TakeAvailable() []byte {
	c.in.mu.Lock()
	b := append([]byte(nil), c.in.buf...)
	c.in.buf = c.in.buf[:0]
	c.in.mu.Unlock()
	wake(c.in.wwake)
	return b
}

// PeerClosed reports whether the other end closed its side (EOF for us).
func (c *PipeConn) PeerClosed() bool {
	c.in.mu.Lock()
	defer c.in.mu.Unlock()
	return c.in.wclosed
}
