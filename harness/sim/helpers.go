package sim

import (
	"github.com/gammazero/nexus/v3/wamp"
)

// AllFeatures is a HELLO roles dict announcing every client feature.
func AllFeatures() wamp.Dict {
	return wamp.Dict{
		"publisher": wamp.Dict{"features": wamp.Dict{
			"subscriber_blackwhite_listing": true, "publisher_exclusion": true,
			"publisher_identification": true, "payload_passthru_mode": true}},
		"subscriber": wamp.Dict{"features": wamp.Dict{
			"pattern_based_subscription": true, "publisher_identification": true,
			"payload_passthru_mode": true}},
		"callee": wamp.Dict{"features": wamp.Dict{
			"pattern_based_registration": true, "shared_registration": true,
			"call_canceling": true, "call_timeout": true, "caller_identification": true,
			"progressive_call_results": true, "progressive_call_invocations": true,
			"payload_passthru_mode": true}},
		"caller": wamp.Dict{"features": wamp.Dict{
			"call_canceling": true, "call_timeout": true, "caller_identification": true,
			"progressive_call_results": true, "progressive_call_invocations": true,
			"payload_passthru_mode": true}},
	}
}

// Roles builds a roles dict from role -> feature list.
func Roles(m map[string][]string) wamp.Dict {
	d := wamp.Dict{}
	for role, feats := range m {
		f := wamp.Dict{}
		for _, x := range feats {
			f[x] = true
		}
		d[role] = wamp.Dict{"features": f}
	}
	return d
}

// Join sends HELLO with the given details, waits for quiescence and returns
// the observations. On WELCOME it records the session id.
func (p *Puppet) Join(realm string, details wamp.Dict) []Obs {
	p.Send(&wamp.Hello{Realm: wamp.URI(realm), Details: details})
	p.W.Wait()
	obs := p.Take()
	for _, o := range obs {
		if w, ok := o.Msg.(*wamp.Welcome); ok {
			p.Welcome = w
			p.SID = w.ID
		}
	}
	return obs
}
