package sim

import (
	"fmt"
	"io"
	"sync"
	"time"

	"github.com/gammazero/nexus/v3/transport"
	"github.com/gammazero/nexus/v3/transport/serialize"
	"github.com/gammazero/nexus/v3/wamp"

	"verif/harness/canon"
)

// Kind is the attachment kind of a puppet.
type Kind int

const (
	Local Kind = iota
	RawJSON
	RawMsgpack
	RawCBOR
	WSJSON
	WSMsgpack
	WSCBOR
	NumKinds
)

var kindNames = [...]string{"local", "raw-json", "raw-msgpack", "raw-cbor", "ws-json", "ws-msgpack", "ws-cbor"}

func (k Kind) String() string { return kindNames[k] }
func (k Kind) IsRaw() bool    { return k >= RawJSON && k <= RawCBOR }
func (k Kind) IsWS() bool     { return k >= WSJSON && k <= WSCBOR }

// Serializer returns a fresh serializer for network kinds, nil for Local.
func (k Kind) Serializer() serialize.Serializer {
	switch k {
	case RawJSON, WSJSON:
		return &serialize.JSONSerializer{}
	case RawMsgpack, WSMsgpack:
		return &serialize.MessagePackSerializer{}
	case RawCBOR, WSCBOR:
		return &serialize.CBORSerializer{}
	}
	return nil
}

// Obs is one thing a puppet observed.
type Obs struct {
	Seq    uint64        // global arrival order within the world
	At     time.Duration // virtual time since world start
	Msg    wamp.Message  // the message (for Local: the very object the router sent)
	Snap   string        // canonical rendering taken at receipt
	Frame  int           // raw frame type (rawsocket: 0,1,2; websocket: 1,2,9,10), -1 n/a
	Raw    []byte        // payload bytes of network frames
	Closed bool          // transport ended (no more observations follow)
	Err    string        // decode error text, if any
}

// PuppetSpec describes how a puppet attaches.
type PuppetSpec struct {
	Kind             Kind
	QSize            int       // router->client queue size (0: default 64)
	PipeBuf          int       // bytes (raw) or frames (ws) of "socket buffer" router->puppet
	RecvLimit        int       // rawsocket server receive limit (0: default 16M)
	LenNibble        int       // rawsocket: max length nibble the puppet announces (0: default 15; -1: nibble 0)
	TransportDetails wamp.Dict // websocket: passed to AttachClient
	ManualHandshake  bool      // rawsocket: the puppet script writes the 4 handshake bytes itself
	WSPayloadType    int       // websocket: override payload type used by the router-side peer (0: natural)
	FailReadAt       int       // websocket fake: fail k-th ReadMessage
	FailWriteAt      int       // websocket fake: fail k-th WriteMessage
	Name             string
	KeepAlive        time.Duration // websocket: keep-alive interval of the router-side peer (0: none); the puppet answers PINGs
	NoPong           bool          // websocket: the puppet does not answer PINGs
	Unbuffered       bool          // Local: a Peer implementation of the application with unbuffered channels in both directions
}

// chanPeer is an application-provided wamp.Peer (Router.Attach and
// client.NewClient accept any implementation) whose channels are unbuffered:
// the router's send of a message completes only when the client takes it.
type chanPeer struct {
	rd <-chan wamp.Message
	wr chan<- wamp.Message
}

func (p *chanPeer) Recv() <-chan wamp.Message { return p.rd }
func (p *chanPeer) Send() chan<- wamp.Message { return p.wr }
func (p *chanPeer) Close()                    { close(p.wr) }
func (p *chanPeer) IsLocal() bool             { return true }

func unbufferedPeers() (cli, rtr wamp.Peer) {
	rToC := make(chan wamp.Message)
	cToR := make(chan wamp.Message)
	return &chanPeer{rd: rToC, wr: cToR}, &chanPeer{rd: cToR, wr: rToC}
}

type sendItem struct {
	msg   wamp.Message
	raw   []byte // raw: bytes written verbatim; ws: one frame payload
	wsTyp int
	drop  bool
}

// Puppet is a scripted session endpoint.
type Puppet struct {
	W    *World
	Idx  int
	Spec PuppetSpec
	Kind Kind

	mu        sync.Mutex
	log       []Obs
	taken     int
	closed    bool
	attachErr error
	attachRet bool
	stalled   bool
	resume    chan struct{}
	stallSig  chan struct{}

	recvClosed chan struct{} // closed when the reader saw the transport end
	abort      chan struct{} // closed by ForceDrop
	abortOnce  sync.Once
	quit       chan struct{} // closed at world teardown: every puppet goroutine must exit
	quitOnce   sync.Once

	qmu   sync.Mutex
	queue []sendItem
	qwake chan struct{}
	sent  int // items fully handed to the transport

	// transport handles
	cliPeer wamp.Peer // Local
	conn    *PipeConn // raw: puppet end
	ws      *FakeWS
	ser     serialize.Serializer
	// rawsocket negotiated values
	HandshakeReply []byte

	SID     wamp.ID
	Welcome *wamp.Welcome

	// OnMsg, if set before traffic starts, is called by the reader goroutine for every
	// received message after it was recorded (reactive puppets, e.g. a callee that answers).
	OnMsg func(m wamp.Message)
}

func (p *Puppet) String() string { return fmt.Sprintf("P%d(%s)", p.Idx, p.Kind) }

func (p *Puppet) record(o Obs) {
	o.Seq = p.W.seq.Add(1)
	o.At = time.Since(p.W.start)
	if o.Msg != nil && o.Snap == "" {
		o.Snap = canon.Msg(o.Msg)
	}
	p.mu.Lock()
	p.log = append(p.log, o)
	h := p.OnMsg
	p.mu.Unlock()
	if h != nil && o.Msg != nil {
		h(o.Msg)
	}
}

func (p *Puppet) markClosed() {
	p.mu.Lock()
	already := p.closed
	p.closed = true
	p.mu.Unlock()
	if !already {
		p.record(Obs{Closed: true, Frame: -1})
		close(p.recvClosed)
	}
}

// SetOnMsg installs the reactive handler (see OnMsg) race-free.
func (p *Puppet) SetOnMsg(h func(m wamp.Message)) {
	p.mu.Lock()
	p.OnMsg = h
	p.mu.Unlock()
}

// Take returns the observations made since the previous Take.
func (p *Puppet) Take() []Obs {
	p.mu.Lock()
	defer p.mu.Unlock()
	out := append([]Obs(nil), p.log[p.taken:]...)
	p.taken = len(p.log)
	return out
}

// Log returns all observations so far.
func (p *Puppet) Log() []Obs {
	p.mu.Lock()
	defer p.mu.Unlock()
	return append([]Obs(nil), p.log...)
}

// Closed reports whether the puppet saw its transport end.
func (p *Puppet) Closed() bool {
	p.mu.Lock()
	defer p.mu.Unlock()
	return p.closed
}

// AttachResult returns (returned, err) of the router's Attach call for this puppet.
func (p *Puppet) AttachResult() (bool, error) {
	p.mu.Lock()
	defer p.mu.Unlock()
	return p.attachRet, p.attachErr
}

// Unsent is the number of queued items the transport has not accepted yet.
func (p *Puppet) Unsent() int {
	p.qmu.Lock()
	defer p.qmu.Unlock()
	return len(p.queue)
}

func (p *Puppet) enqueue(it sendItem) {
	p.qmu.Lock()
	p.queue = append(p.queue, it)
	p.qmu.Unlock()
	wake(p.qwake)
}

// Send queues a message for sending to the router.
func (p *Puppet) Send(m wamp.Message) { p.enqueue(sendItem{msg: m}) }

// SendRaw queues raw bytes: for rawsocket they are written verbatim to the
// connection (the caller supplies frame headers); for websocket they form one
// frame of type typ.
func (p *Puppet) SendRaw(b []byte, typ int) { p.enqueue(sendItem{raw: b, wsTyp: typ}) }

// Drop queues an abrupt transport close from the client side.
func (p *Puppet) Drop() { p.enqueue(sendItem{drop: true}) }

// ForceDrop closes the client side of the transport immediately, aborting a
// blocked send.
func (p *Puppet) ForceDrop() {
	p.abortOnce.Do(func() { close(p.abort) })
	wake(p.qwake)
}

// Stall stops the puppet from reading (messages stay in the router's queue /
// the pipe buffer).
func (p *Puppet) Stall() {
	p.mu.Lock()
	if !p.stalled {
		p.stalled = true
		p.resume = make(chan struct{})
	}
	p.mu.Unlock()
	if p.conn != nil {
		p.conn.PauseRead(true)
	}
	wake(p.stallSig)
}

// Resume lets a stalled puppet read again.
func (p *Puppet) Resume() {
	p.mu.Lock()
	if p.stalled {
		p.stalled = false
		close(p.resume)
	}
	p.mu.Unlock()
	if p.conn != nil {
		p.conn.PauseRead(false)
	}
}

func (p *Puppet) stallGate() {
	for {
		p.mu.Lock()
		st, ch := p.stalled, p.resume
		p.mu.Unlock()
		if !st {
			return
		}
		select {
		case <-ch:
		case <-p.quit:
			return
		}
	}
}

// Quit makes every goroutine of the puppet exit (closing the transport).
func (p *Puppet) Quit() {
	p.ForceDrop()
	p.quitOnce.Do(func() { close(p.quit) })
}

// EncodeFrame builds a rawsocket frame of the given type around payload.
func EncodeFrame(typ byte, payload []byte) []byte {
	n := len(payload)
	out := make([]byte, 4+n)
	out[0] = typ
	out[1] = byte(n >> 16)
	out[2] = byte(n >> 8)
	out[3] = byte(n)
	copy(out[4:], payload)
	return out
}

func (p *Puppet) writer() {
	for {
		p.qmu.Lock()
		var it sendItem
		have := len(p.queue) > 0
		if have {
			it = p.queue[0]
		}
		p.qmu.Unlock()
		if !have {
			select {
			case <-p.qwake:
				continue
			case <-p.abort:
				p.closeTransport()
				return
			}
		}
		ok := true
		switch {
		case it.drop:
			p.closeTransport()
			p.pop()
			return
		case it.msg != nil:
			ok = p.sendMsg(it.msg)
		default:
			ok = p.sendRaw(it.raw, it.wsTyp)
		}
		p.pop()
		if !ok {
			select {
			case <-p.abort:
				p.closeTransport()
				return
			default:
			}
			// Transport gone: discard whatever else is queued, but keep
			// serving so that enqueue never blocks anybody.
		}
	}
}

func (p *Puppet) pop() {
	p.qmu.Lock()
	if len(p.queue) > 0 {
		p.queue = p.queue[1:]
	}
	p.sent++
	p.qmu.Unlock()
}

func (p *Puppet) sendMsg(m wamp.Message) bool {
	switch {
	case p.Kind == Local:
		select {
		case p.cliPeer.Send() <- m:
			return true
		case <-p.recvClosed:
			return false
		case <-p.abort:
			return false
		}
	case p.Kind.IsRaw():
		b, err := p.ser.Serialize(m)
		if err != nil {
			p.record(Obs{Err: "puppet serialize: " + err.Error(), Frame: -1})
			return true
		}
		_, err = p.conn.Write(EncodeFrame(0, b))
		return err == nil
	default:
		b, err := p.ser.Serialize(m)
		if err != nil {
			p.record(Obs{Err: "puppet serialize: " + err.Error(), Frame: -1})
			return true
		}
		typ := WSBinary
		if p.Kind == WSJSON {
			typ = WSText
		}
		return p.ws.ToRouter(WSFrame{typ, b}, p.abort)
	}
}

func (p *Puppet) sendRaw(b []byte, typ int) bool {
	switch {
	case p.Kind.IsRaw():
		_, err := p.conn.Write(b)
		return err == nil
	case p.Kind.IsWS():
		return p.ws.ToRouter(WSFrame{typ, b}, p.abort)
	}
	return true
}

func (p *Puppet) closeTransport() {
	switch {
	case p.Kind == Local:
		// Closing the client peer closes the client->router channel; only
		// the writer goroutine ever sends on it, so this cannot race a send.
		func() {
			defer func() { _ = recover() }()
			p.cliPeer.Close()
		}()
	case p.Kind.IsRaw():
		p.conn.Close()
	default:
		p.ws.Close()
	}
}

func (p *Puppet) readerLocal() {
	recv := p.cliPeer.Recv()
	for {
		p.stallGate()
		select {
		case m, ok := <-recv:
			if !ok {
				p.markClosed()
				return
			}
			p.record(Obs{Msg: m, Frame: -1})
		case <-p.stallSig:
		case <-p.quit:
			p.markClosed()
			return
		}
	}
}

func (p *Puppet) readerRaw() {
	defer p.markClosed()
	if !p.Spec.ManualHandshake {
		// handshake reply
		var hs [4]byte
		if _, err := io.ReadFull(p.conn, hs[:]); err != nil {
			return
		}
		p.mu.Lock()
		p.HandshakeReply = append([]byte(nil), hs[:]...)
		p.mu.Unlock()
		p.record(Obs{Frame: -2, Raw: append([]byte(nil), hs[:]...)})
	}
	for {
		var h [4]byte
		if _, err := io.ReadFull(p.conn, h[:]); err != nil {
			return
		}
		n := int(h[1])<<16 | int(h[2])<<8 | int(h[3])
		buf := make([]byte, n)
		if _, err := io.ReadFull(p.conn, buf); err != nil {
			p.record(Obs{Frame: int(h[0]), Raw: buf, Err: "truncated frame: " + err.Error()})
			return
		}
		o := Obs{Frame: int(h[0]), Raw: buf}
		if h[0] == 0 {
			m, err := p.ser.Deserialize(buf)
			if err != nil {
				o.Err = "deserialize: " + err.Error()
			} else {
				o.Msg = m
			}
		}
		p.record(o)
	}
}

func (p *Puppet) readerWS() {
	defer p.markClosed()
	for {
		p.stallGate()
		var fr WSFrame
		select {
		case fr = <-p.ws.FromRouter():
		case <-p.stallSig:
			continue
		case <-p.ws.Done():
			// drain what is buffered
			for {
				p.stallGate()
				select {
				case fr = <-p.ws.FromRouter():
					p.recordWS(fr)
					continue
				default:
				}
				return
			}
		}
		p.recordWS(fr)
	}
}

func (p *Puppet) recordWS(fr WSFrame) {
	if fr.Type == WSPing && !p.Spec.NoPong {
		// a websocket endpoint answers PING with PONG carrying the same data
		go p.ws.ToRouter(WSFrame{WSPong, append([]byte(nil), fr.Data...)}, p.abort)
	}
	o := Obs{Frame: fr.Type, Raw: fr.Data}
	if fr.Type == WSText || fr.Type == WSBinary {
		m, err := p.ser.Deserialize(fr.Data)
		if err != nil {
			o.Err = "deserialize: " + err.Error()
		} else {
			o.Msg = m
		}
	}
	p.record(o)
}

// AddPuppet creates a puppet, connects its transport to the router and starts
// the router-side Attach in its own goroutine. The puppet has not sent HELLO.
func (w *World) AddPuppet(spec PuppetSpec) *Puppet {
	p := &Puppet{
		W: w, Idx: len(w.Puppets), Spec: spec, Kind: spec.Kind,
		recvClosed: make(chan struct{}),
		abort:      make(chan struct{}),
		quit:       make(chan struct{}),
		qwake:      make(chan struct{}, 1),
		stallSig:   make(chan struct{}, 1),
	}
	w.Puppets = append(w.Puppets, p)
	qsize := spec.QSize
	switch {
	case spec.Kind == Local:
		cli, rtr := transport.LinkedPeersQSize(qsize)
		if spec.Unbuffered {
			cli, rtr = unbufferedPeers()
		}
		p.cliPeer = cli
		go func() {
			err := w.Router.Attach(rtr)
			p.mu.Lock()
			p.attachErr, p.attachRet = err, true
			p.mu.Unlock()
		}()
		go p.readerLocal()
	case spec.Kind.IsRaw():
		if qsize == 0 {
			qsize = 64
		}
		p.ser = spec.Kind.Serializer()
		cliEnd, srvEnd := BufPipe(spec.PipeBuf)
		p.conn = cliEnd
		go func() {
			peer, err := transport.AcceptRawSocket(srvEnd, w.Log, spec.RecvLimit, qsize)
			if err == nil {
				err = w.Router.Attach(peer)
			} else {
				err = fmt.Errorf("accept: %w", err)
			}
			p.mu.Lock()
			p.attachErr, p.attachRet = err, true
			p.mu.Unlock()
		}()
		if !spec.ManualHandshake {
			nib := spec.LenNibble
			if nib == 0 {
				nib = 15
			} else if nib < 0 {
				nib = 0
			}
			serByte := byte(spec.Kind-RawJSON) + 1
			p.enqueue(sendItem{raw: []byte{0x7f, byte(nib)<<4 | serByte, 0, 0}})
		}
		go p.readerRaw()
	default:
		if qsize == 0 {
			qsize = 64
		}
		p.ser = spec.Kind.Serializer()
		proto := map[Kind]string{WSJSON: "wamp.2.json", WSMsgpack: "wamp.2.msgpack", WSCBOR: "wamp.2.cbor"}[spec.Kind]
		p.ws = NewFakeWS(proto, spec.PipeBuf)
		p.ws.FailReadAt, p.ws.FailWriteAt = spec.FailReadAt, spec.FailWriteAt
		ptype := WSBinary
		if spec.Kind == WSJSON {
			ptype = WSText
		}
		if spec.WSPayloadType != 0 {
			ptype = spec.WSPayloadType
		}
		peer := transport.NewWebsocketPeer(p.ws, spec.Kind.Serializer(), ptype, w.Log, spec.KeepAlive, qsize)
		go func() {
			err := w.Router.AttachClient(peer, spec.TransportDetails)
			p.mu.Lock()
			p.attachErr, p.attachRet = err, true
			p.mu.Unlock()
		}()
		go p.readerWS()
	}
	go p.writer()
	return p
}
