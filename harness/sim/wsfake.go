package sim

import (
	"errors"
	"sync"
	"time"
)

// Websocket frame kinds (same numeric values as gorilla/websocket).
const (
	WSText   = 1
	WSBinary = 2
	WSClose  = 8
	WSPing   = 9
	WSPong   = 10
)

// WSFrame is one websocket message travelling through a FakeWS.
type WSFrame struct {
	Type int
	Data []byte
}

// FakeWS implements transport.WebsocketConnection on top of channels. The
// router side (a websocketPeer) calls ReadMessage/WriteMessage; the puppet side
// uses ToRouter/FromRouter. Faults can be injected at the k-th call.
type FakeWS struct {
	toRouter   chan WSFrame // puppet -> router
	fromRouter chan WSFrame // router -> puppet (bounded: models the socket buffer)
	done       chan struct{}
	once       sync.Once
	proto      string

	mu          sync.Mutex
	pingH       func(string) error
	pongH       func(string) error
	reads       int
	writes      int
	FailReadAt  int // 1-based call number at which ReadMessage fails (0: never)
	FailWriteAt int // 1-based call number at which WriteMessage fails (0: never)
	Controls    []WSFrame
	wsem        chan struct{}
	concurrentW int // max observed concurrent WriteMessage calls (gorilla forbids >1)
	inW         int
}

var errWSClosed = errors.New("fakews: use of closed connection")
var errWSInjected = errors.New("fakews: injected fault")

// NewFakeWS creates a fake websocket whose router->puppet direction buffers up
// to outBuf frames before WriteMessage blocks.
func NewFakeWS(proto string, outBuf int) *FakeWS {
	if outBuf <= 0 {
		outBuf = 16
	}
	return &FakeWS{
		toRouter:   make(chan WSFrame),
		fromRouter: make(chan WSFrame, outBuf),
		done:       make(chan struct{}),
		proto:      proto,
		wsem:       make(chan struct{}, 1),
	}
}

func (f *FakeWS) Close() error {
	f.once.Do(func() { close(f.done) })
	return nil
}

func (f *FakeWS) IsClosed() bool {
	select {
	case <-f.done:
		return true
	default:
		return false
	}
}

func (f *FakeWS) WriteControl(messageType int, data []byte, deadline time.Time) error {
	select {
	case <-f.done:
		return errWSClosed
	default:
	}
	f.mu.Lock()
	f.Controls = append(f.Controls, WSFrame{messageType, append([]byte(nil), data...)})
	f.mu.Unlock()
	return nil
}

func (f *FakeWS) WriteMessage(messageType int, data []byte) error {
	f.mu.Lock()
	f.writes++
	n := f.writes
	fail := f.FailWriteAt != 0 && n >= f.FailWriteAt
	f.inW++
	if f.inW > f.concurrentW {
		f.concurrentW = f.inW
	}
	f.mu.Unlock()
	defer func() {
		f.mu.Lock()
		f.inW--
		f.mu.Unlock()
	}()
	if fail {
		return errWSInjected
	}
	select {
	case <-f.done:
		return errWSClosed
	default:
	}
	fr := WSFrame{messageType, append([]byte(nil), data...)}
	select {
	case f.fromRouter <- fr:
		return nil
	case <-f.done:
		return errWSClosed
	}
}

// MaxConcurrentWrites reports the largest number of WriteMessage calls that
// were in flight at once (gorilla allows one).
func (f *FakeWS) MaxConcurrentWrites() int {
	f.mu.Lock()
	defer f.mu.Unlock()
	return f.concurrentW
}

func (f *FakeWS) ReadMessage() (int, []byte, error) {
	for {
		f.mu.Lock()
		f.reads++
		n := f.reads
		fail := f.FailReadAt != 0 && n >= f.FailReadAt
		f.mu.Unlock()
		if fail {
			return -1, nil, errWSInjected
		}
		select {
		case <-f.done:
			return -1, nil, errWSClosed
		case fr := <-f.toRouter:
			switch fr.Type {
			case WSPing:
				f.mu.Lock()
				h := f.pingH
				f.mu.Unlock()
				if h != nil {
					if err := h(string(fr.Data)); err != nil {
						return -1, nil, err
					}
				}
				continue
			case WSPong:
				f.mu.Lock()
				h := f.pongH
				f.mu.Unlock()
				if h != nil {
					if err := h(string(fr.Data)); err != nil {
						return -1, nil, err
					}
				}
				continue
			case WSClose:
				return -1, nil, errors.New("websocket: close 1000 (normal)")
			}
			return fr.Type, fr.Data, nil
		}
	}
}

func (f *FakeWS) SetPongHandler(h func(string) error) {
	f.mu.Lock()
	f.pongH = h
	f.mu.Unlock()
}

func (f *FakeWS) SetPingHandler(h func(string) error) {
	f.mu.Lock()
	f.pingH = h
	f.mu.Unlock()
}

func (f *FakeWS) Subprotocol() string { return f.proto }

// ToRouter hands a frame to the router side; returns false if the connection
// was closed before the router took it.
func (f *FakeWS) ToRouter(fr WSFrame, abort <-chan struct{}) bool {
	select {
	case f.toRouter <- fr:
		return true
	case <-f.done:
		return false
	case <-abort:
		return false
	}
}

// FromRouter returns the channel of frames written by the router side.
func (f *FakeWS) FromRouter() <-chan WSFrame { return f.fromRouter }

// Done is closed when either side closed the connection.
func (f *FakeWS) Done() <-chan struct{} { return f.done }
