package model

import (
	"fmt"
	"sort"
	"strings"
	"time"

	"github.com/gammazero/nexus/v3/wamp"

	"verif/harness/canon"
)

func normInvoke(s string) string {
	if s == "" {
		return "single"
	}
	return s
}

func (rl *Realm) regByID(id uint64) *Reg {
	if id == 0 {
		return nil
	}
	for _, r := range rl.Regs {
		if r.ID == id {
			return r
		}
	}
	return nil
}

// bestRegs returns the admissible registrations for a call to proc: the exact
// one, else the longest matching prefix, else every matching wildcard.
func (rl *Realm) bestRegs(proc string) []*Reg {
	if r, ok := rl.Regs[subKey{proc, Exact}]; ok {
		return []*Reg{r}
	}
	var best *Reg
	for k, r := range rl.Regs {
		if k.policy == Prefix && PrefixMatch(proc, k.topic) {
			if best == nil || len(k.topic) > len(best.Key.topic) {
				best = r
			}
		}
	}
	if best != nil {
		return []*Reg{best}
	}
	var wc []*Reg
	for k, r := range rl.Regs {
		if k.policy == Wildcard && WildcardMatch(proc, k.topic) {
			wc = append(wc, r)
		}
	}
	sort.Slice(wc, func(i, j int) bool { return wc[i].Key.topic < wc[j].Key.topic })
	return wc
}

// overlapping counts registrations of any policy matching proc.
func (rl *Realm) overlapping(proc string) int {
	n := 0
	for k := range rl.Regs {
		if Matches(proc, k.topic, k.policy) {
			n++
		}
	}
	return n
}

func (r *Reg) candidates() []int {
	k := len(r.Members)
	switch r.Invoke {
	case "first":
		return r.Members[:1]
	case "last":
		return r.Members[k-1:]
	case "roundrobin":
		if k == 1 || r.rrUnsure {
			return r.Members
		}
		if len(r.window) >= k {
			return []int{r.window[len(r.window)-k]}
		}
		var out []int
		for _, mb := range r.Members {
			if !contains(r.window, mb) {
				out = append(out, mb)
			}
		}
		return out
	}
	return r.Members // single (one member), random
}

func (r *Reg) membershipChanged() {
	r.window = nil
	r.rrUnsure = false
}

func (m *Monitor) obsRegister(s *step) {
	op := s.op
	rl := m.realmOf(op.P)
	me := m.Sess[op.P]
	match, _ := canon.AsStr(op.Opts["match"])
	policy := NormMatch(match)
	inv, _ := canon.AsStr(op.Opts["invoke"])
	invoke := normInvoke(inv)
	if !ValidURI(op.URI, rl.Spec.Strict, policy) {
		s.need(op.P, "RP2", "register invalid uri", fmt.Sprintf("ERROR(REGISTER,%d,%s)", op.Req, ErrInvalidURI),
			func(o *ob) bool { return errIs(o, wamp.REGISTER, op.Req, ErrInvalidURI) })
		m.R.Hit("MT7")
		return
	}
	if strings.HasPrefix(op.URI, "wamp.") {
		s.need(op.P, "RP3", "register wamp.*", fmt.Sprintf("ERROR(REGISTER,%d,·)", op.Req),
			func(o *ob) bool { return errIs(o, wamp.REGISTER, op.Req, "") })
		m.R.Hit("MT7")
		return
	}
	disclose, _ := optBool(op.Opts, "disclose_caller")
	if disclose && !rl.Spec.AllowDisclose && me.AuthRole != "trusted" {
		s.need(op.P, "DS2", "register disclose_caller disallowed", fmt.Sprintf("ERROR(REGISTER,%d,%s)", op.Req, ErrDiscloseMe),
			func(o *ob) bool { return errIs(o, wamp.REGISTER, op.Req, ErrDiscloseMe) })
		m.R.Hit("MT7")
		return
	}
	forward, _ := optBool(op.Opts, "forward_timeout")
	key := subKey{op.URI, policy}
	reg := rl.Regs[key]
	isRegistered := func(o *ob) bool {
		r, ok := isMsg[*wamp.Registered](o)
		return ok && uint64(r.Request) == op.Req
	}
	isExists := func(o *ob) bool { return errIs(o, wamp.REGISTER, op.Req, ErrProcExists) }
	sid := me.SID
	if reg == nil {
		reg = &Reg{Key: key, Invoke: invoke, Members: []int{op.P}, Disclose: disclose, Forward: forward}
		rl.Regs[key] = reg
		o := s.need(op.P, "RP1", "registered", fmt.Sprintf("REGISTERED(%d, new id)", op.Req), isRegistered)
		if o != nil {
			id := uint64(o.Msg.(*wamp.Registered).Registration)
			for k2, other := range rl.Regs {
				if other != reg && other.ID == id {
					m.R.Fail("RP1", "registration id not fresh", "after %v: new registration got id %d, the live id of (%q,%s)", op, id, k2.topic, k2.policy)
				}
			}
			if rl.MetaRegs[id] {
				m.R.Fail("RP1", "registration id not fresh", "after %v: new registration got id %d, the id of a meta procedure", op, id)
			}
			reg.ID = id
		}
		cr := m.expectMeta(s, rl, TopicRegOnCreate, -1, "on_create", func(ev *wamp.Event) string {
			if len(ev.Arguments) < 2 {
				return "args"
			}
			if id, ok := canon.AsID(ev.Arguments[0]); !ok || id != sid {
				return "session"
			}
			d, ok := canon.AsDict(ev.Arguments[1])
			if !ok {
				return "details"
			}
			if id, ok := canon.AsID(d["id"]); !ok || (reg.ID != 0 && id != reg.ID) {
				return "id"
			}
			if u, _ := canon.AsStr(d["uri"]); u != op.URI {
				return "uri"
			}
			if mt, _ := canon.AsStr(d["match"]); NormMatch(mt) != policy {
				return "match"
			}
			if iv, _ := canon.AsStr(d["invoke"]); normInvoke(iv) != invoke {
				return "invoke"
			}
			return ""
		})
		rg := m.expectMeta(s, rl, TopicRegOnReg, -1, "on_register", idPairCheck(sid, &reg.ID))
		if m.TrackMeta {
			m.checkOrder(s, cr, rg, "MT6", "on_create/on_register")
		}
		return
	}
	member := contains(reg.Members, op.P)
	conflict := reg.Invoke == "single" || invoke != reg.Invoke
	switch {
	case member && !conflict:
		// I3: REGISTERED(same id) or procedure_already_exists; membership is a set.
		m.R.Hit("RP6")
		o := s.find(op.P, func(o *ob) bool { return isRegistered(o) || isExists(o) })
		if o == nil {
			m.R.Fail("RP6", "repeated register unanswered", "after %v: P%d got neither REGISTERED nor procedure_already_exists: %s", op, op.P, s.describe(op.P))
		} else if r, ok := o.Msg.(*wamp.Registered); ok && reg.ID != 0 && uint64(r.Registration) != reg.ID {
			m.R.Fail("RP6", "repeated register new id", "after %v: repeated REGISTER answered with id %d, registration has %d", op, r.Registration, reg.ID)
		}
		m.R.Hit("MT7")
	case conflict:
		s.need(op.P, "RP4", "register conflicting policy", fmt.Sprintf("ERROR(REGISTER,%d,%s)", op.Req, ErrProcExists), isExists)
		m.R.Hit("MT7")
	default:
		reg.Members = append(reg.Members, op.P)
		reg.membershipChanged()
		o := s.need(op.P, "RP5", "registered shared", fmt.Sprintf("REGISTERED(%d,%d)", op.Req, reg.ID), isRegistered)
		if o != nil && reg.ID != 0 && uint64(o.Msg.(*wamp.Registered).Registration) != reg.ID {
			m.R.Fail("RP5", "shared registration id", "after %v: REGISTERED id %d differs from the registration's id %d", op, o.Msg.(*wamp.Registered).Registration, reg.ID)
		}
		m.expectMeta(s, rl, TopicRegOnReg, -1, "on_register", idPairCheck(sid, &reg.ID))
	}
}

func (m *Monitor) obsUnregister(s *step, id uint64) {
	op := s.op
	rl := m.realmOf(op.P)
	reg := rl.regByID(id)
	isUnreg := func(o *ob) bool {
		u, ok := isMsg[*wamp.Unregistered](o)
		return ok && uint64(u.Request) == op.Req
	}
	isNoSuch := func(o *ob) bool { return errIs(o, wamp.UNREGISTER, op.Req, ErrNoSuchReg) }
	if reg == nil {
		s.need(op.P, "RP8", "unregister unknown id", fmt.Sprintf("ERROR(UNREGISTER,%d,%s)", op.Req, ErrNoSuchReg), isNoSuch)
		m.R.Hit("MT7")
		return
	}
	if !contains(reg.Members, op.P) {
		m.R.Hit("RP8")
		if s.find(op.P, func(o *ob) bool { return isUnreg(o) || isNoSuch(o) }) == nil {
			m.R.Fail("RP8", "unregister by non-member unanswered", "after %v: P%d got neither UNREGISTERED nor no_such_registration: %s", op, op.P, s.describe(op.P))
		}
		m.R.Hit("MT7")
		return
	}
	reg.Members = remove(reg.Members, op.P)
	reg.membershipChanged()
	s.need(op.P, "RP7", "unregistered", fmt.Sprintf("UNREGISTERED(%d)", op.Req), isUnreg)
	sid := m.Sess[op.P].SID
	un := m.expectMeta(s, rl, TopicRegOnUnreg, -1, "on_unregister", idPairCheck(sid, &reg.ID))
	if len(reg.Members) == 0 {
		delete(rl.Regs, reg.Key)
		del := m.expectMeta(s, rl, TopicRegOnDelete, -1, "on_delete", idPairCheck(sid, &reg.ID))
		if m.TrackMeta {
			m.checkOrder(s, un, del, "MT6", "on_unregister/on_delete")
		}
	}
}

func numOpt(opts map[string]any, k string) (float64, bool) {
	v, ok := opts[k]
	if !ok {
		return 0, false
	}
	_, _, f, kind := canon.Num(v)
	if kind == 0 {
		return 0, false
	}
	return f, true
}

var callerKeys = []string{"caller", "caller_authid", "caller_authrole"}

func (m *Monitor) obsCall(s *step) {
	op := s.op
	rl := m.realmOf(op.P)
	ck := callKey{op.P, op.Req}
	payload := canon.Payload(op.Args, op.Kw)
	progInv, _ := optBool(op.Opts, "progress")
	if x := rl.Calls[ck]; x != nil {
		if !x.InProgress {
			// duplicate request id of a pending plain call: outside the decided domain
			m.R.Tracef("model: duplicate call id %d by P%d ignored by the model", op.Req, op.P)
			for _, l := range s.obs {
				for _, o := range l {
					o.used = true
				}
			}
			return
		}
		// continuation chunk of a progressive call
		o := s.need(x.Callee, "RP12", "progressive chunk", fmt.Sprintf("INVOCATION(%d) chunk at P%d", x.Inv, x.Callee), func(o *ob) bool {
			iv, ok := isMsg[*wamp.Invocation](o)
			return ok && uint64(iv.Request) == x.Inv && canon.Payload(iv.Arguments, iv.ArgumentsKw) == payload
		})
		if o != nil {
			iv := o.Msg.(*wamp.Invocation)
			if x.Reg != nil && x.Reg.ID != 0 && uint64(iv.Registration) != x.Reg.ID {
				m.R.Fail("RP12", "chunk registration id", "after %v: chunk INVOCATION carries registration %d, call was routed under %d", op, iv.Registration, x.Reg.ID)
			}
			if p, _ := optBool(iv.Details, "progress"); p != progInv {
				m.R.Fail("RP12", "chunk progress flag", "after %v: chunk INVOCATION details.progress=%v, CALL had progress=%v", op, p, progInv)
			}
		}
		x.InProgress = progInv
		return
	}
	regs := rl.bestRegs(op.URI)
	if len(regs) == 0 {
		s.need(op.P, "RP9", "no such procedure", fmt.Sprintf("ERROR(CALL,%d,%s)", op.Req, ErrNoSuchProc),
			func(o *ob) bool { return errIs(o, wamp.CALL, op.Req, ErrNoSuchProc) })
		m.NonHappyCloses++
		return
	}
	wantProg, _ := optBool(op.Opts, "receive_progress")
	disc, _ := optBool(op.Opts, "disclose_me")
	tmo, _ := numOpt(op.Opts, "timeout")
	m.R.Hit("RP10")
	var hit *ob
	var hitReg *Reg
	callee := -1
	for _, reg := range regs {
		for _, c := range reg.candidates() {
			cs := m.Sess[c]
			if cs == nil || !cs.Alive || cs.stalled {
				continue
			}
			o := s.find(c, func(o *ob) bool {
				iv, ok := isMsg[*wamp.Invocation](o)
				return ok && uint64(iv.Registration) == reg.ID && canon.Payload(iv.Arguments, iv.ArgumentsKw) == payload
			})
			if o != nil {
				hit, hitReg, callee = o, reg, c
				break
			}
		}
		if hit != nil {
			break
		}
	}
	if hit == nil {
		// documented refusals that depend on the picked callee
		okDisc, okFeat := false, false
		for _, reg := range regs {
			if disc && !rl.Spec.AllowDisclose && !reg.Disclose {
				okDisc = true
			}
			for _, c := range reg.Members {
				cs := m.Sess[c]
				if progInv && !(cs.Has("callee", "progressive_call_invocations") && cs.Has("callee", "call_canceling")) {
					okFeat = true
				}
			}
			reg.rrUnsure = true
		}
		o := s.find(op.P, func(o *ob) bool {
			return (okDisc && errIs(o, wamp.CALL, op.Req, ErrDiscloseMe)) || (okFeat && errIs(o, wamp.CALL, op.Req, ErrFeatureNotSupp))
		})
		if o != nil {
			m.R.Hit("DS2")
			m.NonHappyCloses++
			return
		}
		var cand []string
		for _, reg := range regs {
			cand = append(cand, fmt.Sprintf("reg %d (%q,%s,%s) members %v candidates %v", reg.ID, reg.Key.topic, reg.Key.policy, reg.Invoke, reg.Members, reg.candidates()))
		}
		m.R.Fail("RP10", "missing INVOCATION", "after %v: no INVOCATION with the call's payload at an admissible callee [%s]; caller got: %s", op, strings.Join(cand, "; "), s.describe(op.P))
		return
	}
	iv := hit.Msg.(*wamp.Invocation)
	cs := m.Sess[callee]
	if disc && !rl.Spec.AllowDisclose && !hitReg.Disclose {
		m.R.Hit("DS2")
		m.R.Fail("DS2", "disallowed disclose_me call was delivered", "after %v: the realm does not allow disclosure and the registration did not ask for it, yet the call was routed instead of being refused with %s: %s", op, ErrDiscloseMe, hit.Snap)
	}
	if hitReg.Invoke == "roundrobin" {
		if hitReg.rrUnsure {
			hitReg.window = nil
			hitReg.rrUnsure = false
		}
		hitReg.window = append(hitReg.window, callee)
		if len(hitReg.window) > 4*len(hitReg.Members) {
			hitReg.window = hitReg.window[len(hitReg.window)-2*len(hitReg.Members):]
		}
	}
	if rl.overlapping(op.URI) >= 2 || len(hitReg.Members) >= 2 {
		m.Overlaps++
	}
	inv := uint64(iv.Request)
	m.R.Hit("RP11")
	if cs.usedInv[inv] {
		m.R.Fail("RP11", "invocation id reused", "after %v: INVOCATION request id %d was already used towards P%d", op, inv, callee)
	}
	if inv == 0 || inv > MaxID {
		m.R.Fail("RP11", "invocation id range", "after %v: INVOCATION request id %d out of range", op, inv)
	}
	cs.usedInv[inv] = true
	x := &Call{Caller: op.P, Req: op.Req, Callee: callee, Inv: inv, Reg: hitReg, WantProgress: wantProg, InProgress: progInv, Args: payload, URI: op.URI}
	rl.Calls[ck] = x
	m.lastInv[ck] = inv
	wantFlag := wantProg && cs.Has("callee", "progressive_call_results")
	gotFlag, _ := optBool(iv.Details, "receive_progress")
	if gotFlag != wantFlag {
		// The generator keeps progressive_call_results => call_canceling.
		m.R.Fail("RP11", "receive_progress flag", "after %v: INVOCATION.details.receive_progress=%v, expected %v (caller asked=%v, callee supports=%v)", op, gotFlag, wantFlag, wantProg, cs.Has("callee", "progressive_call_results"))
	}
	x.RecvProgress = gotFlag
	if hitReg.Key.policy != Exact {
		if p, ok := detailStr(iv.Details, "procedure"); !ok || p != op.URI {
			m.R.Fail("RP11", "procedure detail", "after %v: INVOCATION for %s registration %q lacks details.procedure=%q: %s", op, hitReg.Key.policy, hitReg.Key.topic, op.URI, hit.Snap)
		}
	}
	if p, _ := optBool(iv.Details, "progress"); p != progInv {
		m.R.Fail("RP12", "chunk progress flag", "after %v: first INVOCATION details.progress=%v, CALL had progress=%v", op, p, progInv)
	}
	if m.CheckDisclose {
		m.checkCallerDisclosure(s, hit, callee, op.P, hitReg.Disclose || (disc && rl.Spec.AllowDisclose && cs.Has("callee", "caller_identification")))
	}
	if tmo > 0 {
		m.R.Hit("TO3")
		if hitReg.Forward && cs.Has("callee", "call_timeout") {
			if t, ok := numOpt(iv.Details, "timeout"); !ok || t != tmo {
				m.R.Fail("TO3", "timeout not forwarded", "after %v: INVOCATION.details.timeout=%v, expected forwarded %v", op, iv.Details["timeout"], tmo)
			}
		} else {
			x.Deadline = m.Now() + time.Duration(tmo)*time.Millisecond
		}
	}
}

func (m *Monitor) checkCallerDisclosure(s *step, o *ob, callee, caller int, want bool) {
	iv := o.Msg.(*wamp.Invocation)
	cs := m.Sess[caller]
	m.R.Hit("DS1")
	if !want {
		for _, k := range callerKeys {
			if _, has := iv.Details[k]; has {
				m.R.Fail("DS1", "caller identity leaked", "after %v: INVOCATION at P%d discloses %s although disclosure is not due: %s", s.op, callee, k, o.Snap)
				return
			}
		}
		return
	}
	if id, ok := detailID(iv.Details, "caller"); !ok || id != cs.SID {
		m.R.Fail("DS1", "caller identity missing or wrong", "after %v: INVOCATION at P%d should disclose caller=%d: %s", s.op, callee, cs.SID, o.Snap)
		return
	}
	if a, ok := detailStr(iv.Details, "caller_authid"); ok && a != cs.AuthID {
		m.R.Fail("DS1", "caller authid wrong", "after %v: INVOCATION discloses caller_authid=%q, true %q", s.op, a, cs.AuthID)
	}
	if a, ok := detailStr(iv.Details, "caller_authrole"); ok && a != cs.AuthRole {
		m.R.Fail("DS1", "caller authrole wrong", "after %v: INVOCATION discloses caller_authrole=%q, true %q", s.op, a, cs.AuthRole)
	}
}

func (rl *Realm) callByInv(callee int, inv uint64) *Call {
	for _, x := range rl.Calls {
		if x.Callee == callee && x.Inv == inv {
			return x
		}
	}
	return nil
}

func (m *Monitor) closeCall(rl *Realm, x *Call) { delete(rl.Calls, callKey{x.Caller, x.Req}) }

func isInterrupt(inv uint64) func(o *ob) bool {
	return func(o *ob) bool {
		i, ok := isMsg[*wamp.Interrupt](o)
		return ok && uint64(i.Request) == inv
	}
}

func (m *Monitor) obsYield(s *step, inv uint64) {
	op := s.op
	rl := m.realmOf(op.P)
	me := m.Sess[op.P]
	progress, _ := optBool(op.Opts, "progress")
	payload := canon.Payload(op.Args, op.Kw)
	x := rl.callByInv(op.P, inv)
	if x == nil {
		m.R.Hit("RP16")
		if progress {
			s.find(op.P, isInterrupt(inv)) // allowed
		}
		return
	}
	if x.Abandoned {
		m.R.Hit("RP18")
		if progress {
			if me.Has("callee", "call_canceling") {
				s.need(op.P, "RP18", "progress for abandoned call not interrupted", fmt.Sprintf("INTERRUPT(%d)", inv), isInterrupt(inv))
			} else {
				s.find(op.P, isInterrupt(inv))
			}
		} else {
			m.closeCall(rl, x)
		}
		return
	}
	isResult := func(wantProgress bool) func(o *ob) bool {
		return func(o *ob) bool {
			r, ok := isMsg[*wamp.Result](o)
			if !ok || uint64(r.Request) != x.Req {
				return false
			}
			p, _ := optBool(r.Details, "progress")
			return p == wantProgress && canon.Payload(r.Arguments, r.ArgumentsKw) == payload
		}
	}
	if progress {
		if x.State == callKillOutstanding {
			s.find(x.Caller, isResult(true)) // delivered or dropped
			return
		}
		s.need(x.Caller, "RP14", "progressive result", fmt.Sprintf("RESULT(%d, progress)", x.Req), isResult(true))
		return
	}
	s.need(x.Caller, "RP13", "final result", fmt.Sprintf("RESULT(%d) with the yielded payload", x.Req), isResult(false))
	m.R.Hit("RP19")
	if x.State == callKillOutstanding {
		m.NonHappyCloses++
	}
	m.closeCall(rl, x)
}

func (m *Monitor) obsInvError(s *step, inv uint64) {
	op := s.op
	rl := m.realmOf(op.P)
	payload := canon.Payload(op.Args, op.Kw)
	x := rl.callByInv(op.P, inv)
	if x == nil {
		m.R.Hit("RP16")
		return
	}
	if x.Abandoned {
		m.closeCall(rl, x)
		return
	}
	s.need(x.Caller, "RP15", "forwarded error", fmt.Sprintf("ERROR(CALL,%d,%s)", x.Req, op.ErrURI), func(o *ob) bool {
		e, ok := isMsg[*wamp.Error](o)
		return ok && e.Type == wamp.CALL && uint64(e.Request) == x.Req && string(e.Error) == op.ErrURI &&
			canon.Payload(e.Arguments, e.ArgumentsKw) == payload
	})
	m.R.Hit("RP19")
	m.NonHappyCloses++
	m.closeCall(rl, x)
}

func (m *Monitor) obsCancel(s *step) {
	op := s.op
	rl := m.realmOf(op.P)
	mode, _ := canon.AsStr(op.Opts["mode"])
	switch mode {
	case "", "skip", "kill", "killnowait":
	default:
		s.need(op.P, "CN5", "cancel unknown mode", fmt.Sprintf("ERROR(CANCEL,%d,%s)", op.Req, ErrInvalidArg),
			func(o *ob) bool { return errIs(o, wamp.CANCEL, op.Req, ErrInvalidArg) })
		return
	}
	x := rl.Calls[callKey{op.P, op.Req}]
	if x == nil || x.State == callKillOutstanding {
		m.R.Hit("CN6")
		return
	}
	cs := m.Sess[x.Callee]
	canInterrupt := cs != nil && cs.Alive && cs.Has("callee", "call_canceling")
	wantErr := func(rule, sig string) {
		s.need(op.P, rule, sig, fmt.Sprintf("ERROR(CALL,%d,%s)", op.Req, ErrCanceled),
			func(o *ob) bool { return errIs(o, wamp.CALL, op.Req, ErrCanceled) })
		m.R.Hit("RP19")
		m.NonHappyCloses++
		m.closeCall(rl, x)
	}
	wantIntr := func(rule, wantMode string) {
		o := s.need(x.Callee, rule, "interrupt", fmt.Sprintf("INTERRUPT(%d) at P%d", x.Inv, x.Callee), isInterrupt(x.Inv))
		if o != nil {
			if md, ok := detailStr(o.Msg.(*wamp.Interrupt).Options, "mode"); ok && md != wantMode {
				m.R.Fail(rule, "interrupt mode", "after %v: INTERRUPT carries mode %q, expected %q", op, md, wantMode)
			}
		}
	}
	switch mode {
	case "skip":
		wantErr("CN1", "cancel skip")
	case "", "killnowait":
		if canInterrupt {
			wantIntr("CN2", "killnowait")
		}
		wantErr("CN2", "cancel killnowait")
	case "kill":
		if canInterrupt {
			wantIntr("CN3", "kill")
			x.State = callKillOutstanding
			x.Deadline = 0
		} else {
			wantErr("CN4", "cancel kill degraded")
		}
	}
}

// obsAdvance expects the router-side timeouts that fell due.
func (m *Monitor) obsAdvance(s *step) {
	now := m.Now()
	type due struct {
		rl *Realm
		x  *Call
	}
	var dues []due
	for _, rl := range m.Realms {
		for _, x := range rl.Calls {
			if x.State == callActive && !x.Abandoned && x.Deadline > 0 && x.Deadline <= now {
				dues = append(dues, due{rl, x})
			}
		}
	}
	sort.Slice(dues, func(i, j int) bool { return dues[i].x.Deadline < dues[j].x.Deadline })
	for _, d := range dues {
		x := d.x
		o := s.need(x.Caller, "TO1", "timeout error", fmt.Sprintf("ERROR(CALL,%d,%s) at %v", x.Req, ErrTimeout, x.Deadline),
			func(o *ob) bool { return errIs(o, wamp.CALL, x.Req, ErrTimeout) })
		if o != nil && o.At != x.Deadline {
			m.R.Fail("TO1", "timeout at wrong time", "call %d of P%d: timeout ERROR observed at virtual %v, deadline was %v", x.Req, x.Caller, o.At, x.Deadline)
		}
		cs := m.Sess[x.Callee]
		if cs != nil && cs.Alive && cs.Has("callee", "call_canceling") {
			s.need(x.Callee, "TO1", "timeout interrupt", fmt.Sprintf("INTERRUPT(%d)", x.Inv), isInterrupt(x.Inv))
		}
		m.R.Hit("RP19")
		m.NonHappyCloses++
		m.closeCall(d.rl, x)
	}
}
