package model

import (
	"fmt"
	"sort"
	"strings"

	"github.com/gammazero/nexus/v3/wamp"

	"verif/harness/canon"
)

// Meta topics.
const (
	TopicSessOnJoin   = "wamp.session.on_join"
	TopicSessOnLeave  = "wamp.session.on_leave"
	TopicSubOnCreate  = "wamp.subscription.on_create"
	TopicSubOnSub     = "wamp.subscription.on_subscribe"
	TopicSubOnUnsub   = "wamp.subscription.on_unsubscribe"
	TopicSubOnDelete  = "wamp.subscription.on_delete"
	TopicRegOnCreate  = "wamp.registration.on_create"
	TopicRegOnReg     = "wamp.registration.on_register"
	TopicRegOnUnreg   = "wamp.registration.on_unregister"
	TopicRegOnDelete  = "wamp.registration.on_delete"
	ErrInvalidURI     = "wamp.error.invalid_uri"
	ErrNoSuchSub      = "wamp.error.no_such_subscription"
	ErrNoSuchReg      = "wamp.error.no_such_registration"
	ErrNoSuchProc     = "wamp.error.no_such_procedure"
	ErrNoSuchSession  = "wamp.error.no_such_session"
	ErrProcExists     = "wamp.error.procedure_already_exists"
	ErrDiscloseMe     = "wamp.error.option_disallowed.disclose_me"
	ErrCanceled       = "wamp.error.canceled"
	ErrTimeout        = "wamp.error.timeout"
	ErrInvalidArg     = "wamp.error.invalid_argument"
	ErrNotAuthorized  = "wamp.error.not_authorized"
	ErrAuthzFailed    = "wamp.error.authorization_failed"
	ErrFeatureNotSupp = "wamp.error.feature_not_supported"
)

// liveSubsMatching returns the subscriptions of rl matching topic, in a
// deterministic order.
func (rl *Realm) subsMatching(topic string) []*Sub {
	var out []*Sub
	for k, s := range rl.Subs {
		if Matches(topic, k.topic, k.policy) {
			out = append(out, s)
		}
	}
	sort.Slice(out, func(i, j int) bool {
		if out[i].Key.policy != out[j].Key.policy {
			return out[i].Key.policy < out[j].Key.policy
		}
		return out[i].Key.topic < out[j].Key.topic
	})
	return out
}

// idsOf extracts ids from a resolved exclude/eligible list.
func idsOf(v any) []uint64 {
	l, ok := canon.AsList(v)
	if !ok {
		return nil
	}
	var out []uint64
	for _, e := range l {
		if id, ok := canon.AsID(e); ok {
			out = append(out, id)
		}
	}
	return out
}

func strsOf(v any) []string {
	l, ok := canon.AsList(v)
	if !ok {
		return nil
	}
	var out []string
	for _, e := range l {
		if s, ok := canon.AsStr(e); ok && s != "" {
			out = append(out, s)
		}
	}
	return out
}

// Filtered implements the documented exclude/eligible semantics for receiver r.
func Filtered(r *Sess, opts map[string]any) bool {
	if v, ok := opts["exclude"]; ok {
		for _, id := range idsOf(v) {
			if id == r.SID {
				return true
			}
		}
	}
	if v, ok := opts["eligible"]; ok {
		ids := idsOf(v)
		if len(ids) > 0 {
			found := false
			for _, id := range ids {
				if id == r.SID {
					found = true
				}
			}
			if !found {
				return true
			}
		}
	}
	for k, v := range opts {
		switch {
		case strings.HasPrefix(k, "exclude_") && k != "exclude_me":
			attr, has := r.Attrs[k[len("exclude_"):]]
			if !has || attr == "" {
				continue
			}
			for _, s := range strsOf(v) {
				if s == attr {
					return true
				}
			}
		case strings.HasPrefix(k, "eligible_"):
			strs := strsOf(v)
			if len(strs) == 0 {
				continue
			}
			attr, has := r.Attrs[k[len("eligible_"):]]
			if !has || attr == "" {
				return true
			}
			found := false
			for _, s := range strs {
				if s == attr {
					found = true
				}
			}
			if !found {
				return true
			}
		}
	}
	return false
}

type pubResult struct {
	events []*ob // matched EVENT observations
	pub    uint64
	nPred  int // predicted receivers (session × subscription)
	nCut   int // subscribers cut by exclude_me / filter
}

// expectPublication predicts and matches the EVENTs of one publication.
// publisher is a puppet index, or -1 for the router's meta session. skip is a
// puppet that must not be notified (causer of a subscription meta event) or -1.
func (m *Monitor) expectPublication(s *step, rl *Realm, publisher int, topic string, opts map[string]any,
	payload string, argCheck func(*wamp.Event) string, skip int, rule string, discloseReq bool) pubResult {

	var res pubResult
	excludeMe := true
	if v, present := opts["exclude_me"]; present {
		if b, ok := v.(bool); ok {
			excludeMe = b
		}
	}
	for _, sub := range rl.subsMatching(topic) {
		for _, r := range sortedInts(sub.Holders) {
			rs := m.Sess[r]
			if rs == nil || !rs.Alive {
				continue
			}
			if r == skip {
				continue
			}
			if r == publisher && excludeMe {
				res.nCut++
				continue
			}
			if Filtered(rs, opts) {
				res.nCut++
				continue
			}
			if rs.stalled || rs.dying {
				continue // C07 handles stalled receivers separately; see obsKill for dying
			}
			res.nPred++
			subID := sub.ID
			pattern := sub.Key.policy != Exact
			m.R.Hit(rule)
			o := s.find(r, func(o *ob) bool {
				ev, ok := isMsg[*wamp.Event](o)
				if !ok || uint64(ev.Subscription) != subID {
					return false
				}
				if res.pub != 0 && uint64(ev.Publication) != res.pub {
					return false
				}
				if t, has := detailStr(ev.Details, "topic"); has {
					if t != topic {
						return false
					}
				} else if pattern && m.TrackMeta {
					// several publications may reach one pattern
					// subscription within one step; without the topic
					// detail they cannot be told apart here (PS9 reports).
				}
				if argCheck != nil {
					return argCheck(ev) == ""
				}
				return canon.Payload(ev.Arguments, ev.ArgumentsKw) == payload
			})
			if o == nil {
				m.R.Fail(rule, "missing EVENT", "after %v: P%d holds subscription %d (%q,%s) matching %q and is not excluded, but received no EVENT with the publication's content; it received: %s",
					s.op, r, subID, sub.Key.topic, sub.Key.policy, topic, s.describe(r))
				continue
			}
			ev := o.Msg.(*wamp.Event)
			if res.pub == 0 {
				res.pub = uint64(ev.Publication)
			}
			res.events = append(res.events, o)
			// PS9: topic detail
			m.R.Hit("PS9")
			if t, has := detailStr(ev.Details, "topic"); pattern && (!has || t != topic) {
				m.R.Fail("PS9", "topic detail", "after %v: EVENT at P%d for %s subscription %q lacks details.topic=%q: %s", s.op, r, sub.Key.policy, sub.Key.topic, topic, o.Snap)
			}
			// PS9: nothing in the details that this publication does not account for
			pptReq, _ := opts["ppt_scheme"].(string)
			for k, v := range ev.Details {
				switch k {
				case "topic", "publisher", "publisher_authid", "publisher_authrole":
				case "ppt_scheme", "ppt_serializer", "ppt_cipher", "ppt_keyid":
					want, asked := opts[k]
					if pptReq == "" || !asked || canon.Val(want) != canon.Val(v) {
						m.R.Fail("PS9", "foreign detail in EVENT", "after %v: EVENT at P%d carries details.%s=%v, which this publication's options (%v=%v) do not account for: %s", s.op, r, k, v, k, want, o.Snap)
					}
				default:
					if publisher >= 0 {
						m.R.Fail("PS9", "foreign detail in EVENT", "after %v: EVENT at P%d carries the unexpected detail %q: %s", s.op, r, k, o.Snap)
					}
				}
			}
			if m.CheckDisclose && publisher >= 0 {
				m.checkPublisherDisclosure(s, o, r, publisher, discloseReq && rl.Spec.AllowDisclose)
			}
		}
	}
	return res
}

var publisherKeys = []string{"publisher", "publisher_authid", "publisher_authrole"}

func (m *Monitor) checkPublisherDisclosure(s *step, o *ob, r, publisher int, allowed bool) {
	ev := o.Msg.(*wamp.Event)
	rs, ps := m.Sess[r], m.Sess[publisher]
	want := allowed && rs.Has("subscriber", "publisher_identification")
	m.R.Hit("DS1")
	if !want {
		for _, k := range publisherKeys {
			if _, has := ev.Details[k]; has {
				m.R.Fail("DS1", "publisher identity leaked", "after %v: EVENT at P%d discloses %s although disclosure is not due for this recipient (requested&&allowed=%v, recipient feature=%v): %s",
					s.op, r, k, allowed, rs.Has("subscriber", "publisher_identification"), o.Snap)
				return
			}
		}
		return
	}
	if id, ok := detailID(ev.Details, "publisher"); !ok || id != ps.SID {
		m.R.Fail("DS1", "publisher identity missing or wrong", "after %v: EVENT at P%d should disclose publisher=%d: %s", s.op, r, ps.SID, o.Snap)
		return
	}
	if a, ok := detailStr(ev.Details, "publisher_authid"); ok && a != ps.AuthID {
		m.R.Fail("DS1", "publisher authid wrong", "after %v: EVENT at P%d discloses publisher_authid=%q, true %q", s.op, r, a, ps.AuthID)
	}
	if a, ok := detailStr(ev.Details, "publisher_authrole"); ok && a != ps.AuthRole {
		m.R.Fail("DS1", "publisher authrole wrong", "after %v: EVENT at P%d discloses publisher_authrole=%q, true %q", s.op, r, a, ps.AuthRole)
	}
}

// expectMeta predicts a meta event. Returns matched observations per receiver.
func (m *Monitor) expectMeta(s *step, rl *Realm, topic string, skip int, what string, argCheck func(*wamp.Event) string) []*ob {
	if !m.TrackMeta {
		return nil
	}
	res := m.expectPublication(s, rl, -1, topic, nil, "", argCheck, skip, "MT5", false)
	_ = what
	if res.pub != 0 {
		m.notePub(s, res.pub)
	}
	return res.events
}

func (m *Monitor) notePub(s *step, pub uint64) {
	m.R.Hit("PS7")
	if pub == 0 || pub > MaxID {
		m.R.Fail("ID2", "publication id range", "after %v: publication id %d outside [1,2^53]", s.op, pub)
	}
	if m.pubSeen[pub] {
		m.R.Fail("PS7", "publication id reused", "after %v: publication id %d was already used by an earlier publication", s.op, pub)
	}
	m.pubSeen[pub] = true
}

// checkOrder verifies that for every receiver the observation in a precedes
// the one in b (meta event ordering).
func (m *Monitor) checkOrder(s *step, a, b []*ob, rule, what string) {
	m.R.Hit(rule)
	first := map[uint64]uint64{} // not keyed by puppet here; use Seq comparisons per receiver through subscription+puppet is overkill
	_ = first
	// receivers are identified by position in s.obs
	where := func(x *ob) int {
		for p, l := range s.obs {
			for _, o := range l {
				if o == x {
					return p
				}
			}
		}
		return -1
	}
	for _, x := range a {
		px := where(x)
		for _, y := range b {
			if where(y) != px {
				continue
			}
			if y.Seq < x.Seq {
				m.R.Fail(rule, "meta event order", "after %v: at P%d %s arrived in the wrong order: %s before %s", s.op, px, what, y.Snap, x.Snap)
			}
		}
	}
}

// ---------------------------------------------------------------------------

func (m *Monitor) obsSubscribe(s *step) {
	op := s.op
	rl := m.realmOf(op.P)
	match, _ := canon.AsStr(op.Opts["match"])
	policy := NormMatch(match)
	if !ValidURI(op.URI, rl.Spec.Strict, policy) {
		s.need(op.P, "PS2", "subscribe invalid uri", fmt.Sprintf("ERROR(SUBSCRIBE,%d,%s)", op.Req, ErrInvalidURI),
			func(o *ob) bool { return errIs(o, wamp.SUBSCRIBE, op.Req, ErrInvalidURI) })
		return
	}
	key := subKey{op.URI, policy}
	sub, existed := rl.Subs[key]
	if !existed {
		sub = &Sub{Key: key, Holders: map[int]bool{}}
		rl.Subs[key] = sub
	}
	already := sub.Holders[op.P]
	sub.Holders[op.P] = true
	rule := "PS1"
	if already {
		rule = "PS3"
	}
	o := s.need(op.P, rule, "subscribed", fmt.Sprintf("SUBSCRIBED(%d, id of (%q,%s))", op.Req, op.URI, policy), func(o *ob) bool {
		sd, ok := isMsg[*wamp.Subscribed](o)
		return ok && uint64(sd.Request) == op.Req
	})
	if o != nil {
		id := uint64(o.Msg.(*wamp.Subscribed).Subscription)
		if sub.ID == 0 {
			for k2, other := range rl.Subs {
				if other != sub && other.ID == id {
					m.R.Fail("PS1", "subscription id not fresh", "after %v: new subscription (%q,%s) got id %d which is the live id of (%q,%s)", op, op.URI, policy, id, k2.topic, k2.policy)
				}
			}
			sub.ID = id
		} else if sub.ID != id {
			m.R.Fail("PS1", "subscription id unstable", "after %v: SUBSCRIBED carries id %d but (%q,%s) has id %d", op, id, op.URI, policy, sub.ID)
		}
	}
	sid := m.Sess[op.P].SID
	var created []*ob
	if !existed {
		created = m.expectMeta(s, rl, TopicSubOnCreate, op.P, "on_create", func(ev *wamp.Event) string {
			if len(ev.Arguments) < 2 {
				return "args"
			}
			if id, ok := canon.AsID(ev.Arguments[0]); !ok || id != sid {
				return "session"
			}
			d, ok := canon.AsDict(ev.Arguments[1])
			if !ok {
				return "details"
			}
			if id, ok := canon.AsID(d["id"]); !ok || (sub.ID != 0 && id != sub.ID) {
				return "id"
			}
			if u, _ := canon.AsStr(d["uri"]); u != op.URI {
				return "uri"
			}
			if mt, _ := canon.AsStr(d["match"]); NormMatch(mt) != policy {
				return "match"
			}
			return ""
		})
	}
	if !already {
		subd := m.expectMeta(s, rl, TopicSubOnSub, op.P, "on_subscribe", idPairCheck(sid, &sub.ID))
		if !existed && m.TrackMeta {
			m.checkOrder(s, created, subd, "MT6", "on_create/on_subscribe")
		}
	} else {
		m.R.Hit("MT7")
	}
	if len(rl.policies()) >= 2 {
		m.PolicyTables++
	}
}

func (rl *Realm) policies() map[string]bool {
	out := map[string]bool{}
	for k, s := range rl.Subs {
		if len(s.Holders) > 0 {
			out[k.policy] = true
		}
	}
	return out
}

// idPairCheck checks meta event arguments [sessionID, id].
func idPairCheck(sid uint64, id *uint64) func(*wamp.Event) string {
	return func(ev *wamp.Event) string {
		if len(ev.Arguments) < 2 {
			return "args"
		}
		if v, ok := canon.AsID(ev.Arguments[0]); !ok || v != sid {
			return "session"
		}
		if v, ok := canon.AsID(ev.Arguments[1]); !ok || (*id != 0 && v != *id) {
			return "id"
		}
		return ""
	}
}

func (m *Monitor) obsUnsubscribe(s *step, id uint64) {
	op := s.op
	rl := m.realmOf(op.P)
	var sub *Sub
	for _, x := range rl.Subs {
		if x.ID == id && id != 0 {
			sub = x
		}
	}
	if sub == nil || !sub.Holders[op.P] {
		sig := "unsubscribe unknown id"
		if sub != nil {
			sig = "unsubscribe by non-holder"
			if sub.Hist != nil && len(sub.Holders) == 0 {
				sig = "unsubscribe by non-holder of history subscription"
			}
		}
		s.need(op.P, "PS5", sig, fmt.Sprintf("ERROR(UNSUBSCRIBE,%d,%s)", op.Req, ErrNoSuchSub),
			func(o *ob) bool { return errIs(o, wamp.UNSUBSCRIBE, op.Req, ErrNoSuchSub) })
		m.R.Hit("MT7")
		return
	}
	delete(sub.Holders, op.P)
	s.need(op.P, "PS4", "unsubscribed", fmt.Sprintf("UNSUBSCRIBED(%d)", op.Req), func(o *ob) bool {
		u, ok := isMsg[*wamp.Unsubscribed](o)
		return ok && uint64(u.Request) == op.Req
	})
	sid := m.Sess[op.P].SID
	un := m.expectMeta(s, rl, TopicSubOnUnsub, op.P, "on_unsubscribe", idPairCheck(sid, &sub.ID))
	if len(sub.Holders) == 0 && sub.Hist == nil {
		delete(rl.Subs, sub.Key)
		del := m.expectMeta(s, rl, TopicSubOnDelete, op.P, "on_delete", idPairCheck(sid, &sub.ID))
		if m.TrackMeta {
			m.checkOrder(s, un, del, "MT6", "on_unsubscribe/on_delete")
		}
	}
}

func (m *Monitor) obsPublish(s *step, opts map[string]any) {
	op := s.op
	rl := m.realmOf(op.P)
	ack, _ := optBool(opts, "acknowledge")
	badURI := !ValidURI(op.URI, rl.Spec.Strict, Exact)
	disc, _ := optBool(opts, "disclose_me")
	badDisc := disc && !rl.Spec.AllowDisclose
	if badURI || badDisc {
		rule, sig := "PS8", "publish invalid topic"
		if !badURI {
			rule, sig = "DS2", "publish disclose_me disallowed"
		}
		if ack {
			s.need(op.P, rule, sig, fmt.Sprintf("ERROR(PUBLISH,%d,%s)", op.Req, map[bool]string{true: ErrInvalidURI, false: ErrDiscloseMe}[badURI]), func(o *ob) bool {
				if badURI && errIs(o, wamp.PUBLISH, op.Req, ErrInvalidURI) {
					return true
				}
				return badDisc && errIs(o, wamp.PUBLISH, op.Req, ErrDiscloseMe)
			})
		} else {
			m.R.Hit(rule)
		}
		return // any EVENT now is flagged by finish()
	}
	payload := canon.Payload(op.Args, op.Kw)
	res := m.expectPublication(s, rl, op.P, op.URI, opts, payload, nil, -1, "PS6", disc)
	if res.nPred > 0 && res.nCut > 0 {
		m.FilterCuts++
		if len(rl.policies()) >= 2 {
			m.NTPubs++
		}
	}
	if ack {
		o := s.need(op.P, "PS7", "published", fmt.Sprintf("PUBLISHED(%d)", op.Req), func(o *ob) bool {
			p, ok := isMsg[*wamp.Published](o)
			return ok && uint64(p.Request) == op.Req
		})
		if o != nil {
			pid := uint64(o.Msg.(*wamp.Published).Publication)
			if res.pub != 0 && pid != res.pub {
				m.R.Fail("PS7", "publication id mismatch", "after %v: PUBLISHED reports publication %d but the EVENTs carry %d", op, pid, res.pub)
			}
			res.pub = pid
		}
	} else {
		m.R.Hit("PS7")
	}
	if res.pub != 0 {
		m.notePub(s, res.pub)
		m.pubByReq[callKey{op.P, op.Req}] = res.pub
	}
	// event history retention (model side, C20)
	_, hasEx := opts["exclude"]
	_, hasEl := opts["eligible"]
	for _, sub := range rl.subsMatching(op.URI) {
		if sub.Hist != nil && !hasEx && !hasEl {
			sub.Hist.Add(HistEntry{Pub: res.pub, Topic: op.URI, Payload: payload, At: m.Now(), PubKnown: res.pub != 0})
		}
	}
}
