package model

import (
	"fmt"
	"sort"
	"strings"
	"time"
)

// OpKind enumerates the scripted operations.
type OpKind int

const (
	OpJoin OpKind = iota
	OpLeave
	OpSubscribe
	OpUnsubscribe
	OpPublish
	OpRegister
	OpUnregister
	OpCall
	OpCancel
	OpYield
	OpInvError
	OpAdvance
	OpMetaCall
	OpStall
	OpResume
	OpRaw // send an arbitrary message (hostile workloads); the monitor only tracks liveness
)

var opNames = [...]string{"join", "leave", "subscribe", "unsubscribe", "publish", "register", "unregister", "call", "cancel", "yield", "inverror", "advance", "metacall", "stall", "resume", "raw"}

func (k OpKind) String() string { return opNames[k] }

// Ways a session can end.
const (
	LeaveGoodbye   = "goodbye"
	LeaveDrop      = "drop"
	LeaveViolation = "violation"
)

// Ref names a router-assigned id symbolically; it is resolved when the
// message is built, from what the monitor has bound so far.
type Ref struct {
	Kind  string // "sub", "reg", "inv", "sid", "raw", "pub"
	Topic string // sub/reg: uri
	Match string // sub/reg: policy (normalised)
	P     int    // inv: caller puppet; sid: puppet
	Req   uint64 // inv: caller's request id
	Raw   uint64 // raw: literal id
}

func (r Ref) String() string {
	switch r.Kind {
	case "sub", "reg":
		return fmt.Sprintf("$%s(%q,%s)", r.Kind, r.Topic, r.Match)
	case "inv":
		return fmt.Sprintf("$inv(P%d#%d)", r.P, r.Req)
	case "sid":
		return fmt.Sprintf("$sid(P%d)", r.P)
	case "pub":
		return fmt.Sprintf("$pub(P%d#%d)", r.P, r.Req)
	}
	return fmt.Sprintf("%d", r.Raw)
}

// Op is one scripted step.
type Op struct {
	Kind OpKind
	P    int    // acting puppet
	Req  uint64 // request id used in the message
	URI  string // topic / procedure / meta procedure
	// Options as they go on the wire, except that values of type Ref or []Ref
	// are resolved to ids first.
	Opts   map[string]any
	Args   []any
	Kw     map[string]any
	Target Ref           // unsubscribe/unregister/yield/inverror/cancel target
	How    string        // leave: way
	D      time.Duration // advance
	ErrURI string        // inverror
	Join   *JoinSpec     // join
}

// JoinSpec describes a session joining.
type JoinSpec struct {
	Realm    string
	AuthID   string            // for local trusted peers: HELLO authid
	Extra    map[string]string // extra HELLO details that are strings (session attributes)
	Features map[string][]string
}

func (o Op) String() string {
	var b strings.Builder
	fmt.Fprintf(&b, "%s P%d", o.Kind, o.P)
	if o.Req != 0 {
		fmt.Fprintf(&b, " #%d", o.Req)
	}
	if o.URI != "" || o.Kind == OpSubscribe || o.Kind == OpPublish || o.Kind == OpRegister || o.Kind == OpCall {
		fmt.Fprintf(&b, " %q", o.URI)
	}
	if len(o.Opts) > 0 {
		keys := make([]string, 0, len(o.Opts))
		for k := range o.Opts {
			keys = append(keys, k)
		}
		sort.Strings(keys)
		b.WriteString(" {")
		for i, k := range keys {
			if i > 0 {
				b.WriteString(", ")
			}
			fmt.Fprintf(&b, "%s: %v", k, o.Opts[k])
		}
		b.WriteString("}")
	}
	if o.Target.Kind != "" {
		fmt.Fprintf(&b, " -> %v", o.Target)
	}
	if len(o.Args) > 0 {
		fmt.Fprintf(&b, " args=%v", o.Args)
	}
	if len(o.Kw) > 0 {
		fmt.Fprintf(&b, " kw=%v", o.Kw)
	}
	if o.How != "" {
		fmt.Fprintf(&b, " how=%s", o.How)
	}
	if o.ErrURI != "" {
		fmt.Fprintf(&b, " err=%s", o.ErrURI)
	}
	if o.D != 0 {
		fmt.Fprintf(&b, " d=%v", o.D)
	}
	if o.Join != nil {
		fmt.Fprintf(&b, " realm=%s authid=%q extra=%v", o.Join.Realm, o.Join.AuthID, o.Join.Extra)
	}
	return b.String()
}
