package model

import (
	"fmt"

	"github.com/gammazero/nexus/v3/wamp"

	"verif/harness/canon"
	"verif/harness/sim"
)

type built struct {
	opts   map[string]any
	target uint64
}

// resolve turns a Ref into a concrete id using the monitor's bindings; unknown
// references resolve to an id that certainly names nothing (so the request is
// a request about an unknown id).
func (m *Monitor) resolve(p int, r Ref) uint64 {
	const nothing = uint64(777777777)
	switch r.Kind {
	case "raw":
		return r.Raw
	case "sid":
		if s := m.Sess[r.P]; s != nil {
			return s.SID
		}
	case "sub":
		if rl := m.realmOf(p); rl != nil {
			if s := rl.Subs[subKey{r.Topic, r.Match}]; s != nil && s.ID != 0 {
				return s.ID
			}
		}
	case "reg":
		if rl := m.realmOf(p); rl != nil {
			if g := rl.Regs[subKey{r.Topic, r.Match}]; g != nil && g.ID != 0 {
				return g.ID
			}
		}
	case "pub":
		if v, ok := m.pubByReq[callKey{r.P, r.Req}]; ok {
			return v
		}
	case "inv":
		// look in every realm: cross-realm attack ops name foreign calls
		for _, rl := range m.Realms {
			if x := rl.Calls[callKey{r.P, r.Req}]; x != nil {
				return x.Inv
			}
		}
		if v, ok := m.lastInv[callKey{r.P, r.Req}]; ok {
			return v
		}
	}
	return nothing
}

func (m *Monitor) resolveVal(p int, v any) any {
	switch x := v.(type) {
	case Ref:
		return m.resolve(p, x)
	case []Ref:
		out := make([]any, len(x))
		for i, r := range x {
			out[i] = m.resolve(p, r)
		}
		return out
	case []any:
		out := make([]any, len(x))
		for i, e := range x {
			out[i] = m.resolveVal(p, e)
		}
		return out
	case map[string]any:
		out := make(map[string]any, len(x))
		for k, e := range x {
			out[k] = m.resolveVal(p, e)
		}
		return out
	}
	return v
}

func toDict(m map[string]any) wamp.Dict {
	d := wamp.Dict{}
	for k, v := range m {
		d[k] = toWamp(v)
	}
	return d
}

func toWamp(v any) any {
	switch x := v.(type) {
	case map[string]any:
		return toDict(x)
	case []any:
		l := make(wamp.List, len(x))
		for i, e := range x {
			l[i] = toWamp(e)
		}
		return l
	}
	return v
}

func toList(l []any) wamp.List {
	if l == nil {
		return nil
	}
	return toWamp(l).(wamp.List)
}

func toKw(m map[string]any) wamp.Dict {
	if m == nil {
		return nil
	}
	return toDict(m)
}

// Build turns an op into the message to send (nil for ops that are not
// messages) and remembers the resolved references for Observe.
func (m *Monitor) Build(op Op) wamp.Message {
	b := built{opts: map[string]any{}}
	for k, v := range op.Opts {
		b.opts[k] = m.resolveVal(op.P, v)
	}
	if op.Target.Kind != "" {
		b.target = m.resolve(op.P, op.Target)
	}
	m.cur = b
	args := toList(m.resolveVal(op.P, op.Args).([]any))
	if op.Args == nil {
		args = nil
	}
	var kw wamp.Dict
	if op.Kw != nil {
		kw = toKw(m.resolveVal(op.P, op.Kw).(map[string]any))
	}
	switch op.Kind {
	case OpSubscribe:
		return &wamp.Subscribe{Request: wamp.ID(op.Req), Options: toDict(b.opts), Topic: wamp.URI(op.URI)}
	case OpUnsubscribe:
		return &wamp.Unsubscribe{Request: wamp.ID(op.Req), Subscription: wamp.ID(b.target)}
	case OpPublish:
		return &wamp.Publish{Request: wamp.ID(op.Req), Options: toDict(b.opts), Topic: wamp.URI(op.URI), Arguments: args, ArgumentsKw: kw}
	case OpRegister:
		return &wamp.Register{Request: wamp.ID(op.Req), Options: toDict(b.opts), Procedure: wamp.URI(op.URI)}
	case OpUnregister:
		return &wamp.Unregister{Request: wamp.ID(op.Req), Registration: wamp.ID(b.target)}
	case OpCall, OpMetaCall:
		return &wamp.Call{Request: wamp.ID(op.Req), Options: toDict(b.opts), Procedure: wamp.URI(op.URI), Arguments: args, ArgumentsKw: kw}
	case OpCancel:
		return &wamp.Cancel{Request: wamp.ID(op.Req), Options: toDict(b.opts)}
	case OpYield:
		return &wamp.Yield{Request: wamp.ID(b.target), Options: toDict(b.opts), Arguments: args, ArgumentsKw: kw}
	case OpInvError:
		return &wamp.Error{Type: wamp.INVOCATION, Request: wamp.ID(b.target), Details: wamp.Dict{}, Error: wamp.URI(op.ErrURI), Arguments: args, ArgumentsKw: kw}
	case OpLeave:
		switch op.How {
		case LeaveGoodbye:
			return &wamp.Goodbye{Reason: "wamp.close.close_realm", Details: wamp.Dict{}}
		case LeaveViolation:
			return &wamp.Welcome{ID: 1, Details: wamp.Dict{}}
		}
	}
	return nil
}

// JoinInfo is what the harness knows about a freshly attached puppet.
type JoinInfo struct {
	Idx     int
	Realm   string
	Kind    sim.Kind
	Hello   wamp.Dict
	Welcome *wamp.Welcome
}

func featuresOf(hello wamp.Dict) map[string]map[string]bool {
	out := map[string]map[string]bool{}
	roles, _ := canon.AsDict(hello["roles"])
	for role, rv := range roles {
		out[role] = map[string]bool{}
		rd, _ := canon.AsDict(rv)
		fd, _ := canon.AsDict(rd["features"])
		for f, v := range fd {
			if b, ok := v.(bool); ok && b {
				out[role][f] = true
			}
		}
	}
	return out
}

// ObserveJoin registers a session that received WELCOME and checks the
// on_join announcement.
func (m *Monitor) ObserveJoin(op Op, ji JoinInfo, obs map[int][]sim.Obs) {
	s := m.newStep(op, obs)
	defer s.finish()
	rl := m.Realms[ji.Realm]
	ss := &Sess{Idx: ji.Idx, Realm: ji.Realm, Kind: ji.Kind, Local: ji.Kind == sim.Local, Alive: true,
		Attrs: map[string]string{}, Feat: featuresOf(ji.Hello), usedInv: map[uint64]bool{}}
	o := s.find(ji.Idx, func(o *ob) bool { _, ok := isMsg[*wamp.Welcome](o); return ok })
	if o == nil || rl == nil {
		m.R.Fail("AU1", "join failed", "after %v: P%d expected WELCOME, got: %s", op, ji.Idx, s.describe(ji.Idx))
		return
	}
	w := o.Msg.(*wamp.Welcome)
	ss.SID = uint64(w.ID)
	if ss.SID == 0 || ss.SID > MaxID {
		m.R.Fail("ID2", "session id range", "WELCOME carries session id %d", ss.SID)
	}
	for _, other := range m.Sess {
		if other.Alive && other.SID == ss.SID {
			m.R.Fail("AU4", "session id reused", "WELCOME for P%d carries the live session id %d of P%d", ji.Idx, ss.SID, other.Idx)
		}
	}
	for k, v := range ji.Hello {
		if k == "roles" || k == "authmethods" {
			continue
		}
		if sv, ok := canon.AsStr(v); ok {
			ss.Attrs[k] = sv
		}
	}
	for k, v := range w.Details {
		if k == "roles" {
			continue
		}
		if sv, ok := canon.AsStr(v); ok {
			ss.Attrs[k] = sv
		}
	}
	ss.AuthID, ss.AuthRole = ss.Attrs["authid"], ss.Attrs["authrole"]
	m.Sess[ji.Idx] = ss
	m.expectMeta(s, rl, TopicSessOnJoin, -1, "on_join", func(ev *wamp.Event) string {
		if len(ev.Arguments) < 1 {
			return "args"
		}
		d, ok := canon.AsDict(ev.Arguments[0])
		if !ok {
			return "details"
		}
		if id, ok := canon.AsID(d["session"]); !ok || id != ss.SID {
			return "session"
		}
		if a, _ := canon.AsStr(d["authid"]); a != ss.AuthID {
			return "authid"
		}
		if a, _ := canon.AsStr(d["authrole"]); a != ss.AuthRole {
			return "authrole"
		}
		return ""
	})
}

// Observe checks the observations of one executed op against the model.
func (m *Monitor) Observe(op Op, obs map[int][]sim.Obs) {
	s := m.newStep(op, obs)
	defer s.finish()
	if me := m.Sess[op.P]; op.Kind != OpAdvance && (me == nil || !me.Alive) {
		// ops of a session that is not attached are not routed: nothing may happen
		m.R.Hit("AU2")
		return
	}
	switch op.Kind {
	case OpSubscribe:
		m.obsSubscribe(s)
	case OpUnsubscribe:
		m.obsUnsubscribe(s, m.cur.target)
	case OpPublish:
		m.obsPublish(s, m.cur.opts)
	case OpRegister:
		m.obsRegister(s)
	case OpUnregister:
		m.obsUnregister(s, m.cur.target)
	case OpCall:
		m.obsCall(s)
	case OpCancel:
		m.obsCancel(s)
	case OpYield:
		m.obsYield(s, m.cur.target)
	case OpInvError:
		m.obsInvError(s, m.cur.target)
	case OpAdvance:
		m.obsAdvance(s)
	case OpLeave:
		m.obsLeave(s, op.P, op.How, "", false)
	case OpMetaCall:
		m.obsMetaCall(s)
	}
}

// endSessionState removes a session from the model without expectations.
func (m *Monitor) endSessionState(p int) {
	ss := m.Sess[p]
	if ss == nil {
		return
	}
	ss.Alive = false
	rl := m.Realms[ss.Realm]
	if rl == nil {
		return
	}
	for k, sub := range rl.Subs {
		delete(sub.Holders, p)
		if len(sub.Holders) == 0 && sub.Hist == nil {
			delete(rl.Subs, k)
		}
	}
	for k, reg := range rl.Regs {
		if contains(reg.Members, p) {
			reg.Members = remove(reg.Members, p)
			reg.membershipChanged()
		}
		if len(reg.Members) == 0 {
			delete(rl.Regs, k)
		}
	}
	for ck, x := range rl.Calls {
		if x.Callee == p {
			delete(rl.Calls, ck)
		} else if x.Caller == p {
			x.Abandoned = true
		}
	}
}

// obsLeave checks everything that must happen when session p ends. how is one
// of the Leave* ways or "kill" (then reason is the GOODBYE reason expected).
func (m *Monitor) obsLeave(s *step, p int, how, reason string, killAll bool) {
	ss := m.Sess[p]
	rl := m.Realms[ss.Realm]
	sid := ss.SID
	// what the departing session itself sees: the farewell message is sent
	// best-effort by the router (for network peers it races with the close of
	// the transport), so it is optional; when present it must be the right one.
	farewell := func(rule, sig string, okReason func(string) bool) {
		m.R.Hit(rule)
		o := s.find(p, func(o *ob) bool {
			if _, ok := isMsg[*wamp.Goodbye](o); ok {
				return true
			}
			_, ok := isMsg[*wamp.Abort](o)
			return ok
		})
		if o == nil {
			m.FarewellLost++
			return
		}
		var reason string
		switch x := o.Msg.(type) {
		case *wamp.Goodbye:
			reason = string(x.Reason)
		case *wamp.Abort:
			reason = "ABORT:" + string(x.Reason)
		}
		if !okReason(reason) {
			m.R.Fail(rule, sig, "after %v: P%d was told %s", s.op, p, o.Snap)
		}
	}
	switch how {
	case LeaveGoodbye:
		farewell("LC0", "wrong goodbye reply", func(r string) bool { return r == "wamp.close.goodbye_and_out" })
	case LeaveViolation:
		farewell("LC0", "wrong abort on violation", func(r string) bool { return r == "ABORT:wamp.error.protocol_violation" })
	case "kill":
		farewell("MT8", "kill goodbye reason", func(r string) bool { return r == reason })
	}
	s.need(p, "LC0", "transport not closed after session end", "transport close", func(o *ob) bool { return o.Closed })

	ss.Alive = false
	// calls served by p are answered with an error; its own calls are abandoned
	for ck, x := range rl.Calls {
		if x.Callee == p && !x.Abandoned && x.Caller != p {
			x := x
			if cs := m.Sess[x.Caller]; cs != nil && cs.dying {
				s.find(x.Caller, func(o *ob) bool { return errIs(o, wamp.CALL, x.Req, "") })
				delete(rl.Calls, ck)
				continue
			}
			s.need(x.Caller, "RP17", map[bool]string{false: "callee gone", true: "callee gone after kill-cancel"}[x.State == callKillOutstanding],
				fmt.Sprintf("ERROR(CALL,%d,·) because callee P%d ended", x.Req, p),
				func(o *ob) bool { return errIs(o, wamp.CALL, x.Req, "") })
			m.R.Hit("RP19")
			m.NonHappyCloses++
			delete(rl.Calls, ck)
		} else if x.Callee == p {
			if x.Caller == p { // it served its own call: the error may still reach it before the close
				x := x
				s.find(p, func(o *ob) bool { return errIs(o, wamp.CALL, x.Req, "") })
			}
			delete(rl.Calls, ck)
		}
	}
	for _, x := range rl.Calls {
		if x.Caller == p {
			x.Abandoned = true
			m.NonHappyCloses++
		}
	}
	// subscriptions
	type gone struct {
		id  *uint64
		del bool
	}
	var subsLeft, regsLeft []gone
	for k, sub := range rl.Subs {
		if !sub.Holders[p] {
			continue
		}
		delete(sub.Holders, p)
		g := gone{id: &sub.ID}
		if len(sub.Holders) == 0 && sub.Hist == nil {
			delete(rl.Subs, k)
			g.del = true
		}
		subsLeft = append(subsLeft, g)
	}
	for k, reg := range rl.Regs {
		if !contains(reg.Members, p) {
			continue
		}
		reg.Members = remove(reg.Members, p)
		reg.membershipChanged()
		g := gone{id: &reg.ID}
		if len(reg.Members) == 0 {
			delete(rl.Regs, k)
			g.del = true
		}
		regsLeft = append(regsLeft, g)
	}
	// When several sessions are ended by one kill request their removal order is
	// arbitrary, so an on_delete may name any of them as the last member.
	delCheck := func(id *uint64) func(*wamp.Event) string { return idPairCheck(sid, id) }
	if ss.dying {
		sids := map[uint64]bool{}
		for _, o := range m.Sess {
			if o.dying {
				sids[o.SID] = true
			}
		}
		delCheck = func(id *uint64) func(*wamp.Event) string {
			return func(ev *wamp.Event) string {
				if len(ev.Arguments) < 2 {
					return "args"
				}
				if v, ok := canon.AsID(ev.Arguments[0]); !ok || !sids[v] {
					return "session"
				}
				if v, ok := canon.AsID(ev.Arguments[1]); !ok || (*id != 0 && v != *id) {
					return "id"
				}
				return ""
			}
		}
	}
	if m.TrackMeta {
		for _, g := range subsLeft {
			un := m.optionalMeta(s, rl, TopicSubOnUnsub, idPairCheck(sid, g.id))
			if g.del {
				del := m.expectMeta(s, rl, TopicSubOnDelete, -1, "on_delete", delCheck(g.id))
				m.checkOrder(s, un, del, "MT6", "on_unsubscribe/on_delete")
			}
		}
		for _, g := range regsLeft {
			un := m.optionalMeta(s, rl, TopicRegOnUnreg, idPairCheck(sid, g.id))
			if g.del {
				del := m.expectMeta(s, rl, TopicRegOnDelete, -1, "on_delete", delCheck(g.id))
				m.checkOrder(s, un, del, "MT6", "on_unregister/on_delete")
			}
		}
	}
	// testaments: each published exactly once (C05, I5: also for kill_all)
	for _, t := range ss.Testament {
		m.R.Hit("LC4")
		opts := map[string]any{}
		for k, v := range t.Opts {
			opts[k] = v
		}
		res := m.expectPublication(s, rl, -1, t.Topic, opts, canon.Payload(toList(t.Args), toKw(t.Kw)), nil, -1, "LC4", false)
		if res.pub != 0 {
			m.notePub(s, res.pub)
		}
	}
	ss.Testament = nil
	m.expectMeta(s, rl, TopicSessOnLeave, -1, "on_leave", func(ev *wamp.Event) string {
		if len(ev.Arguments) < 1 {
			return "args"
		}
		if id, ok := canon.AsID(ev.Arguments[0]); !ok || id != sid {
			return "session"
		}
		if len(ev.Arguments) >= 3 {
			if a, _ := canon.AsStr(ev.Arguments[1]); a != ss.AuthID {
				return "authid"
			}
			if a, _ := canon.AsStr(ev.Arguments[2]); a != ss.AuthRole {
				return "authrole"
			}
		}
		return ""
	})
}

// optionalMeta consumes a meta event at every predicted receiver if present.
func (m *Monitor) optionalMeta(s *step, rl *Realm, topic string, argCheck func(*wamp.Event) string) []*ob {
	var out []*ob
	for _, sub := range rl.subsMatching(topic) {
		for _, r := range sortedInts(sub.Holders) {
			rs := m.Sess[r]
			if rs == nil || !rs.Alive || rs.stalled || rs.dying {
				continue
			}
			subID := sub.ID
			o := s.find(r, func(o *ob) bool {
				ev, ok := isMsg[*wamp.Event](o)
				if !ok || uint64(ev.Subscription) != subID {
					return false
				}
				if t, has := detailStr(ev.Details, "topic"); has && t != topic {
					return false
				}
				return argCheck(ev) == ""
			})
			if o != nil {
				out = append(out, o)
			}
		}
	}
	return out
}

// OpenCalls returns the number of calls the model considers pending.
func (m *Monitor) OpenCalls() int {
	n := 0
	for _, rl := range m.Realms {
		for _, x := range rl.Calls {
			if !x.Abandoned {
				n++
			}
		}
	}
	return n
}

// CallInfo describes a pending call for script generators.
type CallInfo struct {
	Realm, URI      string
	Caller, Callee  int
	Req, Inv        uint64
	KillOutstanding bool
	Deadline        int64 // virtual ns, 0 none
	InProgress      bool
	WantProgress    bool
	Abandoned       bool
}

// PendingCalls lists the calls the model considers open, in a stable order.
func (m *Monitor) PendingCalls() []CallInfo {
	var out []CallInfo
	for name, rl := range m.Realms {
		for _, x := range rl.Calls {
			out = append(out, CallInfo{Realm: name, URI: x.URI, Caller: x.Caller, Callee: x.Callee, Req: x.Req, Inv: x.Inv,
				KillOutstanding: x.State == callKillOutstanding, Deadline: int64(x.Deadline), InProgress: x.InProgress,
				WantProgress: x.WantProgress, Abandoned: x.Abandoned})
		}
	}
	sortCalls(out)
	return out
}

func sortCalls(l []CallInfo) {
	for i := 1; i < len(l); i++ {
		for j := i; j > 0; j-- {
			a, b := l[j-1], l[j]
			if a.Realm < b.Realm || (a.Realm == b.Realm && (a.Caller < b.Caller || (a.Caller == b.Caller && a.Req <= b.Req))) {
				break
			}
			l[j-1], l[j] = b, a
		}
	}
}

// RegInfo describes a live registration.
type RegInfo struct {
	Realm, URI, Policy, Invoke string
	ID                         uint64
	Members                    []int
}

// Registrations lists live registrations in a stable order.
func (m *Monitor) Registrations() []RegInfo {
	var out []RegInfo
	for name, rl := range m.Realms {
		for k, r := range rl.Regs {
			out = append(out, RegInfo{Realm: name, URI: k.topic, Policy: k.policy, Invoke: r.Invoke, ID: r.ID, Members: append([]int(nil), r.Members...)})
		}
	}
	for i := 1; i < len(out); i++ {
		for j := i; j > 0 && (out[j-1].Realm+out[j-1].Policy+out[j-1].URI) > (out[j].Realm+out[j].Policy+out[j].URI); j-- {
			out[j-1], out[j] = out[j], out[j-1]
		}
	}
	return out
}

// AliveSessions returns the indices of attached puppets.
func (m *Monitor) AliveSessions() []int {
	var out []int
	for i, s := range m.Sess {
		if s.Alive {
			out = append(out, i)
		}
	}
	for i := 1; i < len(out); i++ {
		for j := i; j > 0 && out[j-1] > out[j]; j-- {
			out[j-1], out[j] = out[j], out[j-1]
		}
	}
	return out
}

// Holds reports whether session p currently holds a subscription, a
// registration, a testament or a pending call in either role.
func (m *Monitor) Holds(p int) bool {
	ss := m.Sess[p]
	if ss == nil || !ss.Alive {
		return false
	}
	if len(ss.Testament) > 0 {
		return true
	}
	rl := m.Realms[ss.Realm]
	for _, sub := range rl.Subs {
		if sub.Holders[p] {
			return true
		}
	}
	for _, reg := range rl.Regs {
		if contains(reg.Members, p) {
			return true
		}
	}
	for _, x := range rl.Calls {
		if x.Caller == p || x.Callee == p {
			return true
		}
	}
	return false
}

// NoCallState reports whether the model holds no call at all (not even calls
// abandoned by a departed caller).
func (m *Monitor) NoCallState() bool {
	for _, rl := range m.Realms {
		if len(rl.Calls) > 0 {
			return false
		}
	}
	return true
}

// ObserveRemoveRealm checks the removal of a realm: its sessions are told
// GOODBYE wamp.close.system_shutdown or lose their transport, nobody else
// notices anything.
func (m *Monitor) ObserveRemoveRealm(name string, obs map[int][]sim.Obs) {
	op := Op{Kind: OpRaw, URI: "RemoveRealm " + name}
	s := m.newStep(op, obs)
	defer s.finish()
	rl := m.Realms[name]
	if rl == nil {
		return
	}
	for _, ss := range m.aliveIn(name) {
		p := ss.Idx
		m.R.Hit("SD3")
		g := s.find(p, func(o *ob) bool {
			gb, ok := isMsg[*wamp.Goodbye](o)
			return ok && string(gb.Reason) == "wamp.close.system_shutdown"
		})
		cl := s.find(p, func(o *ob) bool { return o.Closed })
		if g == nil && cl == nil {
			m.R.Fail("SD3", "session not told about realm removal", "RemoveRealm(%s): P%d saw neither GOODBYE system_shutdown nor its transport closing: %s", name, p, s.describe(p))
		}
		if cl == nil {
			m.R.Fail("SD3", "transport left open after realm removal", "RemoveRealm(%s): transport of P%d was not closed", name, p)
		}
		// other farewell messages to the dying sessions (errors for their pending calls...) are not judged
		for _, o := range s.obs[p] {
			o.used = true
		}
		ss.Alive = false
	}
	delete(m.Realms, name)
}

// ObserveDenied checks a message the Authorizer refused: no effect anywhere,
// and exactly one ERROR of the request's type and id for request messages
// (none for an unacknowledged PUBLISH); for other message kinds at most one
// ERROR to the sender.
func (m *Monitor) ObserveDenied(op Op, failed bool, obs map[int][]sim.Obs) {
	s := m.newStep(op, obs)
	defer s.finish()
	uri := ErrNotAuthorized
	if failed {
		uri = ErrAuthzFailed
	}
	var typ wamp.MessageType
	request := true
	req := op.Req
	switch op.Kind {
	case OpPublish:
		typ = wamp.PUBLISH
		if ack, _ := optBool(op.Opts, "acknowledge"); !ack {
			m.R.Hit("AZ2")
			return // silence; anything observed is flagged by finish()
		}
	case OpSubscribe:
		typ = wamp.SUBSCRIBE
	case OpUnsubscribe:
		typ = wamp.UNSUBSCRIBE
	case OpRegister:
		typ = wamp.REGISTER
	case OpUnregister:
		typ = wamp.UNREGISTER
	case OpCall, OpMetaCall:
		typ = wamp.CALL
	case OpCancel:
		typ = wamp.CANCEL
	case OpYield:
		typ, request, req = wamp.YIELD, false, m.cur.target
	case OpInvError:
		typ, request = wamp.ERROR, false
	case OpLeave:
		typ, request = wamp.GOODBYE, false
	}
	if request {
		s.need(op.P, "AZ1", "denied "+typ.String()+" not answered", fmt.Sprintf("ERROR(%s,%d,%s)", typ, req, uri),
			func(o *ob) bool { return errIs(o, typ, req, uri) })
		m.R.Hit("AZ3")
		return
	}
	m.R.Hit("AZ3")
	s.find(op.P, func(o *ob) bool {
		e, ok := isMsg[*wamp.Error](o)
		return ok && e.Type == typ && string(e.Error) == uri
	})
}

// SetAttr records a session detail changed by the Authorizer.
func (m *Monitor) SetAttr(p int, k, v string) {
	if s := m.Sess[p]; s != nil {
		s.Attrs[k] = v
	}
}
