package model

import "time"

// HistEntry is one retained publication.
type HistEntry struct {
	Pub      uint64
	PubKnown bool
	Topic    string
	Payload  string // canonical args+kwargs
	At       time.Duration
}

// Hist is the reference ring of the last Limit publications.
type Hist struct {
	Limit   int
	Entries []HistEntry
}

// Add appends an entry, dropping the oldest beyond Limit.
func (h *Hist) Add(e HistEntry) {
	h.Entries = append(h.Entries, e)
	if len(h.Entries) > h.Limit {
		h.Entries = h.Entries[len(h.Entries)-h.Limit:]
	}
}

// obsGetEvents is implemented with the C20 check (see getevents.go).
