// Package model holds reference models written from the property statements
// and the WAMP specification text, independent of the nexus implementation.
package model

// Match policies (normalised).
const (
	Exact    = "exact"
	Prefix   = "prefix"
	Wildcard = "wildcard"
)

// NormMatch maps the wire value of a match option onto the policy.
func NormMatch(m string) string {
	switch m {
	case Prefix:
		return Prefix
	case Wildcard:
		return Wildcard
	}
	return Exact
}

func splitDots(s string) []string {
	var out []string
	start := 0
	for i := 0; i < len(s); i++ {
		if s[i] == '.' {
			out = append(out, s[start:i])
			start = i + 1
		}
	}
	return append(out, s[start:])
}

func looseComp(c string) bool {
	if c == "" {
		return false
	}
	for i := 0; i < len(c); i++ {
		switch c[i] {
		case ' ', '\t', '\n', '\r', '\f', '.', '#':
			return false
		}
	}
	return true
}

func strictComp(c string) bool {
	if c == "" {
		return false
	}
	for i := 0; i < len(c); i++ {
		b := c[i]
		if !(b >= '0' && b <= '9' || b >= 'a' && b <= 'z' || b == '_') {
			return false
		}
	}
	return true
}

// ValidURI is the reference for URI validation: components split on '.', each
// non-empty component must satisfy the loose or strict character rule; empty
// components are allowed nowhere (exact), only last (prefix), anywhere
// (wildcard).
func ValidURI(u string, strict bool, policy string) bool {
	comps := splitDots(u)
	for i, c := range comps {
		if c == "" {
			switch policy {
			case Wildcard:
				continue
			case Prefix:
				if i == len(comps)-1 {
					continue
				}
			}
			return false
		}
		if strict {
			if !strictComp(c) {
				return false
			}
		} else if !looseComp(c) {
			return false
		}
	}
	return true
}

// PrefixMatch: uri starts with pattern (bytewise).
func PrefixMatch(uri, pattern string) bool {
	if len(pattern) > len(uri) {
		return false
	}
	for i := 0; i < len(pattern); i++ {
		if uri[i] != pattern[i] {
			return false
		}
	}
	return true
}

// WildcardMatch: same number of components, equal in every non-empty pattern
// component.
func WildcardMatch(uri, pattern string) bool {
	u, p := splitDots(uri), splitDots(pattern)
	if len(u) != len(p) {
		return false
	}
	for i := range p {
		if p[i] != "" && p[i] != u[i] {
			return false
		}
	}
	return true
}

// Matches reports whether a subscription/registration (pattern, policy)
// matches the concrete uri.
func Matches(uri, pattern, policy string) bool {
	switch policy {
	case Prefix:
		return PrefixMatch(uri, pattern)
	case Wildcard:
		return WildcardMatch(uri, pattern)
	}
	return uri == pattern
}

const MaxID = uint64(1) << 53

// IsNewRecvID is the reference for the wrap-around window rule.
func IsNewRecvID(last, id uint64) bool {
	if id == 0 || id > MaxID {
		return false
	}
	if last == 0 || id > last {
		return true
	}
	if id == last {
		return false
	}
	// id < last: distance walking forward from last to id through the wrap.
	dist := MaxID - last + id // (id - last) mod 2^53
	return dist < 500
}
