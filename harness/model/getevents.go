package model

// obsGetEvents checks wamp.subscription.get_events against the history model.
func (m *Monitor) obsGetEvents(s *step, rl *Realm, args []any, kw map[string]any) {
	// filled in by the C20 work; until then only "answered" is required
	m.metaResult(s, "EH0", "get_events answered", nil)
}
