package model

import (
	"fmt"
	"reflect"
	"strings"
	"time"

	"github.com/gammazero/nexus/v3/wamp"

	"verif/harness/canon"
)

// Epoch is the wall-clock time at virtual time zero inside a synctest bubble.
var Epoch = time.Date(2000, 1, 1, 0, 0, 0, 0, time.UTC)

// histEntryView is one returned history entry in representation-independent form.
type histEntryView struct {
	pub     uint64
	payload string
	topic   string
	hasTop  bool
}

// viewEntry reads an entry that is either a struct (in-process askers get the
// router's own value) or a map (serialised transports).
func viewEntry(v any) (histEntryView, bool) {
	var out histEntryView
	get := func(name string) (any, bool) {
		if d, ok := canon.AsDict(v); ok {
			for k, e := range d {
				if strings.EqualFold(k, name) {
					return e, true
				}
			}
			return nil, false
		}
		rv := reflect.ValueOf(v)
		if rv.Kind() == reflect.Pointer && !rv.IsNil() {
			rv = rv.Elem()
		}
		if rv.Kind() == reflect.Struct {
			f := rv.FieldByNameFunc(func(n string) bool { return strings.EqualFold(n, name) })
			if f.IsValid() && f.CanInterface() {
				return f.Interface(), true
			}
		}
		return nil, false
	}
	p, ok := get("publication")
	if !ok {
		return out, false
	}
	out.pub, _ = canon.AsID(p)
	args, _ := get("arguments")
	kw, _ := get("argumentskw")
	al, _ := canon.AsList(args)
	kd, _ := canon.AsDict(kw)
	out.payload = canon.Payload(wamp.List(al), wamp.Dict(kd))
	if det, ok := get("details"); ok {
		if dd, ok := canon.AsDict(det); ok {
			if t, ok := canon.AsStr(dd["topic"]); ok {
				out.topic, out.hasTop = t, true
			}
		}
	}
	return out, true
}

func parseTime(v any) (time.Duration, bool, bool) { // value, present-and-string, valid
	s, ok := canon.AsStr(v)
	if !ok {
		return 0, false, false
	}
	t, err := time.Parse(time.RFC3339, s)
	if err != nil {
		return 0, true, false
	}
	return t.Sub(Epoch), true, true
}

// obsGetEvents checks wamp.subscription.get_events against the history model.
func (m *Monitor) obsGetEvents(s *step, rl *Realm, args []any, kw map[string]any) {
	_ = s.op
	id, idOK := canon.AsID(argAt(args, 0))
	if len(args) == 0 || !idOK || id == 0 {
		m.metaError(s, "EH0", ErrInvalidArg)
		return
	}
	var sub *Sub
	for _, x := range rl.Subs {
		if x.ID == id {
			sub = x
		}
	}
	// ---- filters (decided domain: well-typed values; ill-typed ones must be refused)
	invalid := false
	limit := 0
	if v, ok := kw["limit"]; ok {
		n, _, f, kind := canon.Num(v)
		switch kind {
		case 'i':
			limit = int(n)
		case 'u':
			_, u, _, _ := canon.Num(v)
			limit = int(u)
		case 'f':
			limit = int(f)
			if f != float64(limit) {
				invalid = true
			}
		default:
			invalid = true
		}
		if limit < 1 {
			invalid = true
		}
	}
	reverse := false
	if v, ok := kw["reverse"]; ok {
		b, isb := v.(bool)
		if !isb {
			invalid = true
		}
		reverse = b
	}
	type tf struct {
		d       time.Duration
		present bool
	}
	times := map[string]tf{}
	for _, k := range []string{"from_time", "after_time", "before_time", "until_time"} {
		if v, ok := kw[k]; ok {
			d, isStr, valid := parseTime(v)
			if !isStr || !valid {
				invalid = true
			}
			times[k] = tf{d, true}
		}
	}
	pubs := map[string]uint64{}
	for _, k := range []string{"from_publication", "after_publication", "before_publication", "until_publication"} {
		if v, ok := kw[k]; ok {
			p, ok := canon.AsID(v)
			if !ok || p < 1 {
				invalid = true
			}
			pubs[k] = p
		}
	}
	topicF, hasTopic := "", false
	if v, ok := kw["topic"]; ok {
		if t, ok := canon.AsStr(v); ok {
			topicF, hasTopic = t, t != ""
		}
	}
	if invalid {
		m.metaError(s, "EH2", ErrInvalidArg)
		return
	}
	var entries []HistEntry
	full := false
	if sub != nil && sub.Hist != nil {
		entries = append(entries, sub.Hist.Entries...)
		full = len(sub.Hist.Entries) >= sub.Hist.Limit
	}
	// select
	idx := func(p uint64) int {
		for i, e := range entries {
			if e.Pub == p {
				return i
			}
		}
		return -1
	}
	lo, hi := 0, len(entries) // [lo, hi)
	if p, ok := pubs["from_publication"]; ok {
		if i := idx(p); i >= 0 {
			lo = max(lo, i)
		} else {
			lo = len(entries)
		}
	}
	if p, ok := pubs["after_publication"]; ok {
		if i := idx(p); i >= 0 {
			lo = max(lo, i+1)
		} else {
			lo = len(entries)
		}
	}
	if p, ok := pubs["before_publication"]; ok {
		if i := idx(p); i >= 0 {
			hi = min(hi, i)
		}
	}
	if p, ok := pubs["until_publication"]; ok {
		if i := idx(p); i >= 0 {
			hi = min(hi, i+1)
		}
	}
	var sel []HistEntry
	for i := lo; i < hi && i < len(entries); i++ {
		e := entries[i]
		if f := times["from_time"]; f.present && e.At < f.d {
			continue
		}
		if f := times["after_time"]; f.present && e.At <= f.d {
			continue
		}
		if f := times["before_time"]; f.present && e.At >= f.d {
			continue
		}
		if f := times["until_time"]; f.present && e.At > f.d {
			continue
		}
		if hasTopic && e.Topic != topicF {
			continue
		}
		sel = append(sel, e)
	}
	if limit > 0 && len(sel) > limit {
		sel = sel[len(sel)-limit:]
	}
	if reverse {
		for i, j := 0, len(sel)-1; i < j; i, j = i+1, j-1 {
			sel[i], sel[j] = sel[j], sel[i]
		}
	}
	pattern := sub != nil && sub.Key.policy != Exact
	filters := fmt.Sprint(kw)
	m.R.Hit("EH1")
	m.metaResult(s, "EH2", "get_events", func(a []any, rkw map[string]any) string {
		if len(a) != len(sel) {
			var got []uint64
			for _, x := range a {
				if v, ok := viewEntry(x); ok {
					got = append(got, v.pub)
				}
			}
			var want []uint64
			for _, e := range sel {
				want = append(want, e.Pub)
			}
			return fmt.Sprintf("filters %s over %d retained entries: expected publications %v, got %v", filters, len(entries), want, got)
		}
		for i, x := range a {
			v, ok := viewEntry(x)
			if !ok {
				return fmt.Sprintf("entry %d is not an event record: %T", i, x)
			}
			e := sel[i]
			m.R.Hit("EH3")
			if e.PubKnown && v.pub != e.Pub {
				var got, want []uint64
				for _, y := range a {
					if vv, ok := viewEntry(y); ok {
						got = append(got, vv.pub)
					}
				}
				for _, ee := range sel {
					want = append(want, ee.Pub)
				}
				return fmt.Sprintf("filters %s: expected publications %v in this order, got %v", filters, want, got)
			}
			m.R.Hit("EH4")
			if v.payload != e.Payload {
				return fmt.Sprintf("entry %d (publication %d): payload %s, published %s", i, v.pub, v.payload, e.Payload)
			}
			if v.hasTop && v.topic != e.Topic {
				return fmt.Sprintf("entry %d: topic %q, published to %q", i, v.topic, e.Topic)
			}
			if pattern && !v.hasTop {
				return fmt.Sprintf("entry %d of a pattern history subscription lacks the original topic %q", i, e.Topic)
			}
		}
		if sub != nil && sub.Hist != nil {
			m.R.Hit("EH7")
			if b, ok := rkw["is_limit_reached"].(bool); !ok || b != full {
				return fmt.Sprintf("is_limit_reached=%v, store holds %d of %d", rkw["is_limit_reached"], len(entries), sub.Hist.Limit)
			}
		}
		return ""
	})
}
