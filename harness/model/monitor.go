package model

import (
	"fmt"
	"sort"
	"strings"
	"time"

	"github.com/gammazero/nexus/v3/wamp"

	"verif/harness/canon"
	"verif/harness/sim"
)

// Reporter receives the monitor's findings and coverage counters.
type Reporter interface {
	Fail(rule, sig, format string, a ...any)
	Hit(rule string)
	Ev(kind string)
	Tracef(format string, a ...any)
}

// HistSpec is one configured event-history topic.
type HistSpec struct {
	Topic string
	Match string // normalised policy
	Limit int
}

// RealmSpec is the part of a realm's configuration the model needs.
type RealmSpec struct {
	Name          string
	Strict        bool
	AllowDisclose bool
	MetaKill      bool
	History       []HistSpec
}

type subKey struct{ topic, policy string }

// Sub is a subscription (topic, policy).
type Sub struct {
	Key     subKey
	ID      uint64 // 0 until observed
	Holders map[int]bool
	Hist    *Hist
}

// Reg is a registration (procedure, policy).
type Reg struct {
	Key      subKey
	ID       uint64
	Invoke   string // single, first, last, roundrobin, random
	Members  []int  // in registration order
	Disclose bool
	Forward  bool
	window   []int // round-robin picks since the last membership change
	rrUnsure bool
}

// Call states.
const (
	callActive = iota
	callKillOutstanding
)

// Call is a pending call.
type Call struct {
	Caller       int
	Req          uint64
	Callee       int
	Inv          uint64
	Reg          *Reg
	State        int
	Deadline     time.Duration // 0: none
	WantProgress bool          // caller asked receive_progress
	RecvProgress bool          // flag forwarded to callee
	InProgress   bool          // progressive call invocation: more chunks expected
	Abandoned    bool          // caller gone
	Args         string        // canonical payload of the first chunk (debug)
	URI          string        // procedure called
}

// Sess is the model's view of an attached session.
type Sess struct {
	Idx       int
	SID       uint64
	Realm     string
	Local     bool
	Kind      sim.Kind
	AuthID    string
	AuthRole  string
	Attrs     map[string]string // string-valued session details
	Feat      map[string]map[string]bool
	Alive     bool
	usedInv   map[uint64]bool // invocation ids ever sent to this session
	stalled   bool
	dying     bool // one of several sessions being ended by the same kill request
	Testament []Testament
}

func (s *Sess) Has(role, feature string) bool { return s.Feat[role][feature] }

// Testament is a stored testament.
type Testament struct {
	Topic string
	Args  []any
	Kw    map[string]any
	Opts  map[string]any
	Scope string
}

// Realm is the model state of one realm.
type Realm struct {
	Spec  RealmSpec
	Subs  map[subKey]*Sub
	Regs  map[subKey]*Reg
	Calls map[callKey]*Call
	// ids of the router's own meta registrations (learned from the first listing)
	MetaRegs map[uint64]bool
}

type callKey struct {
	caller int
	req    uint64
}

// Monitor is the lock-step reference-model monitor for a router.
type Monitor struct {
	R      Reporter
	Realms map[string]*Realm
	Sess   map[int]*Sess
	Now    func() time.Duration

	TrackMeta     bool // predict meta events exactly (C18); otherwise wamp.* events are ignored
	CheckDisclose bool // check identity-disclosure keys (C12)
	IgnoreTypes   map[wamp.MessageType]bool
	// Strictness switches for interpretation decisions.
	pubSeen map[uint64]bool
	cur     built
	lastInv map[callKey]uint64
	pubByReq map[callKey]uint64 // publication id reported for (publisher, request)

	// statistics
	NonHappyCloses int // calls closed by cancel/timeout/departure/routing error
	Overlaps       int // calls resolved among >=2 overlapping registrations or shared members
	FilterCuts     int // publications with >=1 receiver and >=1 subscriber cut by option/filter
	PolicyTables   int
	FarewellLost   int // session ends at which the departing peer saw no GOODBYE/ABORT before the close
	NTPubs         int // FilterCuts on a table holding >= 2 policies
}

// NewMonitor creates a monitor for the given realms.
func NewMonitor(r Reporter, now func() time.Duration, realms ...RealmSpec) *Monitor {
	m := &Monitor{R: r, Realms: map[string]*Realm{}, Sess: map[int]*Sess{}, Now: now, pubSeen: map[uint64]bool{}, lastInv: map[callKey]uint64{}, pubByReq: map[callKey]uint64{}}
	for _, rs := range realms {
		m.AddRealm(rs)
	}
	return m
}

// AddRealm adds a realm to the model.
func (m *Monitor) AddRealm(rs RealmSpec) {
	rl := &Realm{Spec: rs, Subs: map[subKey]*Sub{}, Regs: map[subKey]*Reg{}, Calls: map[callKey]*Call{}, MetaRegs: map[uint64]bool{}}
	for _, h := range rs.History {
		k := subKey{h.Topic, NormMatch(h.Match)}
		rl.Subs[k] = &Sub{Key: k, Holders: map[int]bool{}, Hist: &Hist{Limit: h.Limit}}
	}
	m.Realms[rs.Name] = rl
}

func (m *Monitor) realmOf(p int) *Realm {
	s := m.Sess[p]
	if s == nil {
		return nil
	}
	return m.Realms[s.Realm]
}

// ---------------------------------------------------------------------------
// step observations

type ob struct {
	sim.Obs
	used bool
}

type step struct {
	m    *Monitor
	op   Op
	obs  map[int][]*ob
	mute map[int]bool // puppets for which a missing-message failure was already reported in this step
}

func (m *Monitor) newStep(op Op, obs map[int][]sim.Obs) *step {
	s := &step{m: m, op: op, obs: map[int][]*ob{}, mute: map[int]bool{}}
	for p, l := range obs {
		for _, o := range l {
			s.obs[p] = append(s.obs[p], &ob{Obs: o})
			if o.Msg != nil {
				m.R.Ev(o.Msg.MessageType().String())
			} else if o.Closed {
				m.R.Ev("transport-closed")
			}
		}
	}
	return s
}

// find returns the first unused observation at puppet p satisfying pred and
// marks it used.
func (s *step) find(p int, pred func(o *ob) bool) *ob {
	for _, o := range s.obs[p] {
		if o.used {
			continue
		}
		if pred(o) {
			o.used = true
			return o
		}
	}
	return nil
}

func (s *step) describe(p int) string {
	var b strings.Builder
	for _, o := range s.obs[p] {
		if b.Len() > 0 {
			b.WriteString(" ; ")
		}
		switch {
		case o.Closed:
			b.WriteString("<closed>")
		case o.Msg != nil:
			b.WriteString(o.Snap)
		default:
			fmt.Fprintf(&b, "<frame %d %x %s>", o.Frame, o.Raw, o.Err)
		}
	}
	if b.Len() == 0 {
		return "(nothing)"
	}
	return b.String()
}

// need is find + failure report when nothing matches.
func (s *step) need(p int, rule, sig, what string, pred func(o *ob) bool) *ob {
	s.m.R.Hit(rule)
	o := s.find(p, pred)
	if o == nil {
		s.m.R.Fail(rule, sig, "after %v: P%d did not receive %s; it received: %s", s.op, p, what, s.describe(p))
		s.mute[p] = true
	}
	return o
}

func isMsg[T wamp.Message](o *ob) (T, bool) {
	var zero T
	if o.Msg == nil {
		return zero, false
	}
	t, ok := o.Msg.(T)
	return t, ok
}

// finish flags everything not consumed by an expectation.
func (s *step) finish() {
	ps := make([]int, 0, len(s.obs))
	for p := range s.obs {
		ps = append(ps, p)
	}
	sort.Ints(ps)
	for _, p := range ps {
		for _, o := range s.obs[p] {
			if o.used {
				continue
			}
			if s.mute[p] && !o.Closed {
				continue // already reported as "expected X, received: ..." for this puppet
			}
			if ss := s.m.Sess[p]; ss != nil && ss.dying && !o.Closed {
				continue
			}
			if o.Msg == nil && !o.Closed {
				if o.Frame == -2 { // rawsocket handshake reply
					continue
				}
				s.m.R.Fail("TR1", "unexpected frame", "after %v: P%d received unexpected frame type %d (%d bytes) %s", s.op, p, o.Frame, len(o.Raw), o.Err)
				continue
			}
			if o.Closed {
				s.m.R.Fail("RB4", "bystander transport closed", "after %v: transport of P%d was closed although the model does not end that session", s.op, p)
				if ss := s.m.Sess[p]; ss != nil && ss.Alive {
					s.m.endSessionState(p)
				}
				continue
			}
			if s.m.IgnoreTypes[o.Msg.MessageType()] {
				continue
			}
			rule, sig := "RP20", "unexpected message"
			switch msg := o.Msg.(type) {
			case *wamp.Event:
				if !s.m.TrackMeta && s.m.isMetaEvent(p, msg) {
					continue
				}
				rule, sig = "PS6", "unexpected EVENT"
				if s.m.isMetaEvent(p, msg) {
					rule, sig = "MT5", "unexpected meta EVENT"
				}
			case *wamp.Invocation:
				rule, sig = "RP10", "unexpected INVOCATION"
			case *wamp.Interrupt:
				rule, sig = "CN6", "unexpected INTERRUPT"
			case *wamp.Result:
				rule, sig = "RP20", "unexpected RESULT"
			case *wamp.Error:
				rule, sig = "RP20", "unexpected ERROR type="+msg.Type.String()
			case *wamp.Goodbye, *wamp.Abort:
				rule, sig = "RB4", "unexpected "+o.Msg.MessageType().String()
			default:
				rule, sig = "RP20", "unexpected "+o.Msg.MessageType().String()
			}
			s.m.R.Fail(rule, sig, "after %v: P%d received unpredicted %s", s.op, p, o.Snap)
		}
	}
}

// isMetaEvent reports whether ev (received by p) is an event on a wamp.* topic.
func (m *Monitor) isMetaEvent(p int, ev *wamp.Event) bool {
	if t, ok := canon.AsStr(ev.Details["topic"]); ok {
		return strings.HasPrefix(t, "wamp.")
	}
	rl := m.realmOf(p)
	if rl == nil {
		return false
	}
	for k, sub := range rl.Subs {
		if sub.ID == uint64(ev.Subscription) && k.policy == Exact {
			return strings.HasPrefix(k.topic, "wamp.")
		}
	}
	return false
}

// ---------------------------------------------------------------------------
// helpers

func errIs(o *ob, typ wamp.MessageType, req uint64, uri string) bool {
	e, ok := isMsg[*wamp.Error](o)
	if !ok {
		return false
	}
	if e.Type != typ || uint64(e.Request) != req {
		return false
	}
	return uri == "" || string(e.Error) == uri
}

func optBool(opts map[string]any, k string) (val, present bool) {
	v, ok := opts[k]
	if !ok {
		return false, false
	}
	b, isb := v.(bool)
	return b && isb, true
}

func detailStr(d wamp.Dict, k string) (string, bool) {
	v, ok := d[k]
	if !ok {
		return "", false
	}
	return canon.AsStr(v)
}

func detailID(d wamp.Dict, k string) (uint64, bool) {
	v, ok := d[k]
	if !ok {
		return 0, false
	}
	return canon.AsID(v)
}

func sortedInts(m map[int]bool) []int {
	out := make([]int, 0, len(m))
	for k := range m {
		out = append(out, k)
	}
	sort.Ints(out)
	return out
}

func contains(l []int, x int) bool {
	for _, v := range l {
		if v == x {
			return true
		}
	}
	return false
}

func remove(l []int, x int) []int {
	out := l[:0:0]
	for _, v := range l {
		if v != x {
			out = append(out, v)
		}
	}
	return out
}
