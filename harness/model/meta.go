package model

import (
	"fmt"
	"sort"

	"github.com/gammazero/nexus/v3/wamp"

	"verif/harness/canon"
)

func (m *Monitor) metaResult(s *step, rule, what string, check func(args []any, kw map[string]any) string) {
	op := s.op
	o := s.need(op.P, rule, "meta call unanswered: "+op.URI, fmt.Sprintf("RESULT(%d) of %s", op.Req, op.URI), func(o *ob) bool {
		r, ok := isMsg[*wamp.Result](o)
		return ok && uint64(r.Request) == op.Req
	})
	if o == nil || check == nil {
		return
	}
	r := o.Msg.(*wamp.Result)
	kw, _ := canon.AsDict(map[string]any(r.ArgumentsKw))
	if msg := check([]any(r.Arguments), kw); msg != "" {
		m.R.Fail(rule, op.URI+": "+what, "after %v: %s: %s; got %s", op, what, msg, o.Snap)
	}
}

func (m *Monitor) metaError(s *step, rule, uri string) {
	op := s.op
	s.need(op.P, rule, "meta error "+op.URI, fmt.Sprintf("ERROR(CALL,%d,%s) from %s", op.Req, uri, op.URI),
		func(o *ob) bool { return errIs(o, wamp.CALL, op.Req, uri) })
}

func idSet(v any) (map[uint64]bool, bool) {
	if v == nil {
		return map[uint64]bool{}, true
	}
	l, ok := canon.AsList(v)
	if !ok {
		return nil, false
	}
	out := map[uint64]bool{}
	for _, e := range l {
		id, ok := canon.AsID(e)
		if !ok {
			return nil, false
		}
		if out[id] {
			return nil, false // duplicate
		}
		out[id] = true
	}
	return out, true
}

func sameSet(a, b map[uint64]bool) bool {
	if len(a) != len(b) {
		return false
	}
	for k := range a {
		if !b[k] {
			return false
		}
	}
	return true
}

func fmtSet(a map[uint64]bool) string {
	l := make([]uint64, 0, len(a))
	for k := range a {
		l = append(l, k)
	}
	sort.Slice(l, func(i, j int) bool { return l[i] < l[j] })
	return fmt.Sprint(l)
}

func argAt(args []any, i int) any {
	if i < len(args) {
		return args[i]
	}
	return nil
}

func (m *Monitor) aliveIn(realm string) []*Sess {
	var out []*Sess
	for _, ss := range m.Sess {
		if ss.Alive && ss.Realm == realm {
			out = append(out, ss)
		}
	}
	sort.Slice(out, func(i, j int) bool { return out[i].Idx < out[j].Idx })
	return out
}

// obsMetaCall checks a call to one of the wamp.* meta procedures.
func (m *Monitor) obsMetaCall(s *step) {
	op := s.op
	rl := m.realmOf(op.P)
	me := m.Sess[op.P]
	args := m.resolveVal(op.P, op.Args).([]any)
	kw := op.Kw
	if kw != nil {
		kw = m.resolveVal(op.P, op.Kw).(map[string]any)
	}
	switch op.URI {
	case "wamp.session.count", "wamp.session.list":
		var filter []string
		if len(args) > 0 {
			l, ok := canon.AsList(args[0])
			if !ok && args[0] != nil {
				m.metaError(s, "MT4", ErrInvalidArg)
				return
			}
			for _, e := range l {
				sv, ok := canon.AsStr(e)
				if !ok {
					m.metaError(s, "MT4", ErrInvalidArg)
					return
				}
				filter = append(filter, sv)
			}
		}
		want := map[uint64]bool{}
		for _, ss := range m.aliveIn(me.Realm) {
			if len(filter) == 0 {
				want[ss.SID] = true
				continue
			}
			for _, f := range filter {
				if f == ss.AuthRole {
					want[ss.SID] = true
				}
			}
		}
		if op.URI == "wamp.session.count" {
			m.metaResult(s, "MT1", "session count", func(a []any, _ map[string]any) string {
				n, ok := canon.AsID(argAt(a, 0))
				if !ok || int(n) != len(want) {
					return fmt.Sprintf("expected count %d", len(want))
				}
				return ""
			})
		} else {
			m.metaResult(s, "MT1", "session list", func(a []any, _ map[string]any) string {
				got, ok := idSet(argAt(a, 0))
				if !ok || !sameSet(got, want) {
					return "expected session ids " + fmtSet(want)
				}
				return ""
			})
		}
	case "wamp.session.get":
		id, ok := canon.AsID(argAt(args, 0))
		var tgt *Sess
		for _, ss := range m.aliveIn(me.Realm) {
			if ok && ss.SID == id {
				tgt = ss
			}
		}
		if tgt == nil {
			m.metaError(s, "MT4", ErrNoSuchSession)
			return
		}
		m.metaResult(s, "MT2", "session get", func(a []any, _ map[string]any) string {
			d, ok := canon.AsDict(argAt(a, 0))
			if !ok {
				return "expected a details dict"
			}
			if v, ok := canon.AsID(d["session"]); !ok || v != tgt.SID {
				return "wrong session"
			}
			if v, _ := canon.AsStr(d["authid"]); v != tgt.AuthID {
				return "wrong authid, expected " + tgt.AuthID
			}
			if v, _ := canon.AsStr(d["authrole"]); v != tgt.AuthRole {
				return "wrong authrole, expected " + tgt.AuthRole
			}
			if tr, ok := canon.AsDict(d["transport"]); ok {
				if _, has := tr["auth"]; has {
					return "transport.auth exposed"
				}
			}
			return ""
		})
	case "wamp.session.kill", "wamp.session.kill_by_authid", "wamp.session.kill_by_authrole", "wamp.session.kill_all":
		m.obsKill(s, rl, me, args, kw)
	case "wamp.session.add_testament":
		if len(args) < 3 {
			m.metaError(s, "MT9", ErrInvalidArg)
			return
		}
		topic, ok1 := canon.AsStr(args[0])
		targs, ok2 := canon.AsList(args[1])
		tkw, ok3 := canon.AsDict(args[2])
		if args[1] == nil {
			ok2 = true
		}
		if args[2] == nil {
			ok3 = true
		}
		scope, _ := canon.AsStr(kw["scope"])
		if scope == "" {
			scope = "destroyed"
		}
		if !ok1 || !ok2 || !ok3 || (scope != "destroyed" && scope != "detached") {
			m.metaError(s, "MT9", ErrInvalidArg)
			return
		}
		popts, _ := canon.AsDict(m.resolveVal(op.P, kw["publish_options"]))
		me.Testament = append(me.Testament, Testament{Topic: topic, Args: targs, Kw: tkw, Opts: popts, Scope: scope})
		sort.SliceStable(me.Testament, func(i, j int) bool { return me.Testament[i].Scope == "detached" && me.Testament[j].Scope != "detached" })
		m.metaResult(s, "MT9", "add testament", nil)
	case "wamp.session.flush_testaments":
		scope, _ := canon.AsStr(kw["scope"])
		if scope == "" {
			scope = "destroyed"
		}
		if scope != "destroyed" && scope != "detached" {
			m.metaError(s, "MT9", ErrInvalidArg)
			return
		}
		var keep []Testament
		for _, t := range me.Testament {
			if t.Scope != scope {
				keep = append(keep, t)
			}
		}
		me.Testament = keep
		m.metaResult(s, "MT9", "flush testaments", nil)
	default:
		m.obsRegSubMeta(s, rl, args, kw)
	}
}

func (m *Monitor) obsKill(s *step, rl *Realm, me *Sess, args []any, kw map[string]any) {
	op := s.op
	if !rl.Spec.MetaKill {
		m.metaError(s, "MT8", ErrNoSuchProc)
		return
	}
	reason, _ := canon.AsStr(kw["reason"])
	badReason := reason != "" && !ValidURI(reason, false, Exact)
	if reason == "" {
		reason = "wamp.close.normal"
	}
	var victims []*Sess
	single := false
	switch op.URI {
	case "wamp.session.kill":
		single = true
		id, ok := canon.AsID(argAt(args, 0))
		for _, ss := range m.aliveIn(me.Realm) {
			if ok && ss.SID == id && ss.Idx != me.Idx {
				victims = append(victims, ss)
			}
		}
		if len(victims) == 0 {
			if badReason { // both refusals apply: either error is acceptable
				m.metaError(s, "MT4", "")
			} else {
				m.metaError(s, "MT4", ErrNoSuchSession)
			}
			return
		}
	case "wamp.session.kill_by_authid", "wamp.session.kill_by_authrole":
		v, ok := canon.AsStr(argAt(args, 0))
		if !ok {
			m.metaError(s, "MT4", "")
			return
		}
		for _, ss := range m.aliveIn(me.Realm) {
			if ss.Idx == me.Idx {
				continue
			}
			if (op.URI == "wamp.session.kill_by_authid" && ss.AuthID == v) || (op.URI == "wamp.session.kill_by_authrole" && ss.AuthRole == v) {
				victims = append(victims, ss)
			}
		}
	case "wamp.session.kill_all":
		for _, ss := range m.aliveIn(me.Realm) {
			if ss.Idx != me.Idx {
				victims = append(victims, ss)
			}
		}
	}
	if badReason {
		m.metaError(s, "MT8", ErrInvalidURI)
		return
	}
	// several sessions ending at once leave in an arbitrary order: what the
	// victims themselves still see of each other's departure is not predictable
	if len(victims) > 1 {
		for _, v := range victims {
			v.dying = true // stays set: the session is gone after this step
		}
	}
	m.metaResult(s, "MT8", "kill result", func(a []any, _ map[string]any) string {
		if single {
			return ""
		}
		n, ok := canon.AsID(argAt(a, 0))
		if len(victims) == 0 && (argAt(a, 0) == nil || (ok && n == 0)) {
			return ""
		}
		if !ok || int(n) != len(victims) {
			return fmt.Sprintf("expected kill count %d", len(victims))
		}
		return ""
	})
	for _, v := range victims {
		m.obsLeave(s, v.Idx, "kill", reason, op.URI == "wamp.session.kill_all")
	}
}

// obsRegSubMeta handles wamp.registration.* and wamp.subscription.* queries.
func (m *Monitor) obsRegSubMeta(s *step, rl *Realm, args []any, kw map[string]any) {
	op := s.op
	byPolicy := func(get func(policy string) map[uint64]bool, extraExact map[uint64]bool) func(a []any, _ map[string]any) string {
		return func(a []any, _ map[string]any) string {
			d, ok := canon.AsDict(argAt(a, 0))
			if !ok {
				return "expected a dict of id lists"
			}
			for _, pol := range []string{Exact, Prefix, Wildcard} {
				got, ok := idSet(d[pol])
				if !ok {
					return "bad id list for " + pol
				}
				want := get(pol)
				if pol == Exact {
					for id := range extraExact {
						delete(got, id)
					}
				}
				if !sameSet(got, want) {
					return fmt.Sprintf("%s ids: expected %s got %s", pol, fmtSet(want), fmtSet(got))
				}
			}
			return ""
		}
	}
	uri, uriOK := canon.AsStr(argAt(args, 0))
	optMatch := Exact
	if d, ok := canon.AsDict(argAt(args, 1)); ok {
		mt, _ := canon.AsStr(d["match"])
		optMatch = NormMatch(mt)
	}
	id, idOK := canon.AsID(argAt(args, 0))
	nullOrID := func(want uint64) func(a []any, _ map[string]any) string {
		return func(a []any, _ map[string]any) string {
			v := argAt(a, 0)
			got, ok := canon.AsID(v)
			if want == 0 {
				if v == nil || (ok && got == 0) {
					return ""
				}
				return "expected null"
			}
			if !ok || got != want {
				return fmt.Sprintf("expected id %d", want)
			}
			return ""
		}
	}
	switch op.URI {
	case "wamp.registration.list":
		m.metaResult(s, "MT1", "registration list", func(a []any, k map[string]any) string {
			// learn the router's own meta registrations from the first listing
			if len(rl.MetaRegs) == 0 {
				if d, ok := canon.AsDict(argAt(a, 0)); ok {
					if got, ok := idSet(d[Exact]); ok {
						known := map[uint64]bool{}
						for _, r := range rl.Regs {
							known[r.ID] = true
						}
						for id := range got {
							if !known[id] {
								rl.MetaRegs[id] = true
							}
						}
					}
				}
			}
			return byPolicy(func(pol string) map[uint64]bool {
				out := map[uint64]bool{}
				for k, r := range rl.Regs {
					if k.policy == pol {
						out[r.ID] = true
					}
				}
				return out
			}, rl.MetaRegs)(a, k)
		})
	case "wamp.subscription.list":
		m.metaResult(s, "MT1", "subscription list", byPolicy(func(pol string) map[uint64]bool {
			out := map[uint64]bool{}
			for k, sb := range rl.Subs {
				if k.policy == pol && sb.ID != 0 {
					out[sb.ID] = true
				}
			}
			return out
		}, func() map[uint64]bool { // history subscriptions nobody has seen the id of
			return nil
		}()))
	case "wamp.registration.lookup":
		var want uint64
		if uriOK {
			if r := rl.Regs[subKey{uri, optMatch}]; r != nil {
				want = r.ID
			}
		}
		m.metaResult(s, "MT3", "registration lookup", nullOrID(want))
	case "wamp.registration.match":
		var cands []*Reg
		if uriOK {
			cands = rl.bestRegs(uri)
		}
		m.metaResult(s, "MT3", "registration match", func(a []any, _ map[string]any) string {
			v := argAt(a, 0)
			got, ok := canon.AsID(v)
			if len(cands) == 0 {
				if v == nil || (ok && got == 0) {
					return ""
				}
				return "expected null (no registration would take a call to this URI)"
			}
			for _, c := range cands {
				if ok && got == c.ID {
					return ""
				}
			}
			return fmt.Sprintf("expected the id of the registration a CALL would reach (%d candidates, first %d)", len(cands), cands[0].ID)
		})
	case "wamp.registration.get":
		r := rl.regByID(id)
		if !idOK || r == nil {
			if idOK && rl.MetaRegs[id] {
				m.metaResult(s, "MT2", "registration get (meta procedure)", nil)
				return
			}
			m.metaError(s, "MT4", ErrNoSuchReg)
			return
		}
		m.metaResult(s, "MT2", "registration get", func(a []any, _ map[string]any) string {
			d, ok := canon.AsDict(argAt(a, 0))
			if !ok {
				return "expected details dict"
			}
			if v, _ := canon.AsID(d["id"]); v != r.ID {
				return "wrong id"
			}
			if v, _ := canon.AsStr(d["uri"]); v != r.Key.topic {
				return "wrong uri"
			}
			if v, _ := canon.AsStr(d["match"]); NormMatch(v) != r.Key.policy {
				return "wrong match"
			}
			if v, _ := canon.AsStr(d["invoke"]); normInvoke(v) != r.Invoke {
				return "wrong invoke"
			}
			return ""
		})
	case "wamp.registration.list_callees", "wamp.registration.count_callees":
		r := rl.regByID(id)
		if !idOK || r == nil {
			if idOK && rl.MetaRegs[id] {
				m.metaResult(s, "MT2", "callees of meta procedure", nil)
				return
			}
			m.metaError(s, "MT4", ErrNoSuchReg)
			return
		}
		want := map[uint64]bool{}
		for _, c := range r.Members {
			want[m.Sess[c].SID] = true
		}
		if op.URI == "wamp.registration.list_callees" {
			m.metaResult(s, "MT1", "list callees", func(a []any, _ map[string]any) string {
				got, ok := idSet(argAt(a, 0))
				if !ok || !sameSet(got, want) {
					return "expected callees " + fmtSet(want)
				}
				return ""
			})
		} else {
			m.metaResult(s, "MT1", "count callees", func(a []any, _ map[string]any) string {
				n, ok := canon.AsID(argAt(a, 0))
				if !ok || int(n) != len(want) {
					return fmt.Sprintf("expected %d", len(want))
				}
				return ""
			})
		}
	case "wamp.subscription.lookup":
		var want uint64
		known := true
		if uriOK {
			if sb := rl.Subs[subKey{uri, optMatch}]; sb != nil {
				want = sb.ID
				known = sb.ID != 0
			}
		}
		if !known { // history subscription whose id was never observed: learn it
			sb := rl.Subs[subKey{uri, optMatch}]
			m.metaResult(s, "MT3", "subscription lookup", func(a []any, _ map[string]any) string {
				got, ok := canon.AsID(argAt(a, 0))
				if !ok || got == 0 {
					return "expected the id of the configured history subscription"
				}
				sb.ID = got
				return ""
			})
			return
		}
		m.metaResult(s, "MT3", "subscription lookup", nullOrID(want))
	case "wamp.subscription.match":
		want := map[uint64]bool{}
		unknown := 0
		if uriOK {
			for _, sb := range rl.subsMatching(uri) {
				if sb.ID != 0 {
					want[sb.ID] = true
				} else {
					unknown++
				}
			}
		}
		m.metaResult(s, "MT3", "subscription match", func(a []any, _ map[string]any) string {
			got, ok := idSet(argAt(a, 0))
			if !ok {
				return "expected id list or null"
			}
			for id := range want {
				if !got[id] {
					return "expected subscriptions " + fmtSet(want)
				}
			}
			if len(got) != len(want)+unknown {
				return fmt.Sprintf("expected subscriptions %s (+%d history subscriptions of unknown id)", fmtSet(want), unknown)
			}
			return ""
		})
	case "wamp.subscription.get":
		var sb *Sub
		for _, x := range rl.Subs {
			if idOK && x.ID == id {
				sb = x
			}
		}
		if sb == nil {
			m.metaError(s, "MT4", ErrNoSuchSub)
			return
		}
		m.metaResult(s, "MT2", "subscription get", func(a []any, _ map[string]any) string {
			d, ok := canon.AsDict(argAt(a, 0))
			if !ok {
				return "expected details dict"
			}
			if v, _ := canon.AsID(d["id"]); v != sb.ID {
				return "wrong id"
			}
			if v, _ := canon.AsStr(d["uri"]); v != sb.Key.topic {
				return "wrong uri"
			}
			if v, _ := canon.AsStr(d["match"]); NormMatch(v) != sb.Key.policy {
				return "wrong match"
			}
			return ""
		})
	case "wamp.subscription.list_subscribers", "wamp.subscription.count_subscribers":
		var sb *Sub
		for _, x := range rl.Subs {
			if idOK && x.ID == id {
				sb = x
			}
		}
		if sb == nil {
			m.metaError(s, "MT4", ErrNoSuchSub)
			return
		}
		want := map[uint64]bool{}
		for h := range sb.Holders {
			want[m.Sess[h].SID] = true
		}
		if op.URI == "wamp.subscription.list_subscribers" {
			m.metaResult(s, "MT1", "list subscribers", func(a []any, _ map[string]any) string {
				got, ok := idSet(argAt(a, 0))
				if !ok || !sameSet(got, want) {
					return "expected subscribers " + fmtSet(want)
				}
				return ""
			})
		} else {
			m.metaResult(s, "MT1", "count subscribers", func(a []any, _ map[string]any) string {
				n, ok := canon.AsID(argAt(a, 0))
				if !ok || int(n) != len(want) {
					return fmt.Sprintf("expected %d", len(want))
				}
				return ""
			})
		}
	case "wamp.subscription.get_events":
		m.obsGetEvents(s, rl, args, kw)
	default:
		m.metaError(s, "RP9", ErrNoSuchProc)
	}
}
