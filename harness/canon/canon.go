// Package canon renders WAMP values and messages in a canonical textual form
// in which the numeric representation (int, int64, uint64, integral float64),
// map ordering and nil-versus-empty of top-level message fields do not matter.
// It is written without using any nexus conversion helper.
package canon

import (
	"encoding/hex"
	"fmt"
	"math"
	"reflect"
	"sort"
	"strconv"
	"strings"

	"github.com/gammazero/nexus/v3/wamp"
)

// Val renders one value.
func Val(v any) string {
	var b strings.Builder
	val(&b, reflect.ValueOf(v), 0)
	return b.String()
}

const maxDepth = 200

func val(b *strings.Builder, v reflect.Value, depth int) {
	if depth > maxDepth {
		b.WriteString("<deep>")
		return
	}
	if !v.IsValid() {
		b.WriteString("null")
		return
	}
	switch v.Kind() {
	case reflect.Interface, reflect.Pointer:
		if v.IsNil() {
			b.WriteString("null")
			return
		}
		val(b, v.Elem(), depth+1)
	case reflect.Bool:
		if v.Bool() {
			b.WriteString("true")
		} else {
			b.WriteString("false")
		}
	case reflect.Int, reflect.Int8, reflect.Int16, reflect.Int32, reflect.Int64:
		if asDouble {
			b.WriteString(strconv.FormatFloat(float64(v.Int()), 'g', -1, 64))
			return
		}
		b.WriteString(strconv.FormatInt(v.Int(), 10))
	case reflect.Uint, reflect.Uint8, reflect.Uint16, reflect.Uint32, reflect.Uint64, reflect.Uintptr:
		if asDouble {
			b.WriteString(strconv.FormatFloat(float64(v.Uint()), 'g', -1, 64))
			return
		}
		b.WriteString(strconv.FormatUint(v.Uint(), 10))
	case reflect.Float32, reflect.Float64:
		f := v.Float()
		switch {
		case math.IsNaN(f):
			b.WriteString("NaN")
		case math.IsInf(f, 0):
			if f > 0 {
				b.WriteString("+Inf")
			} else {
				b.WriteString("-Inf")
			}
		case asDouble:
			b.WriteString(strconv.FormatFloat(f, 'g', -1, 64))
		case f == math.Trunc(f) && math.Abs(f) < 9.2e18:
			b.WriteString(strconv.FormatInt(int64(f), 10))
		default:
			b.WriteString(strconv.FormatFloat(f, 'g', -1, 64))
		}
	case reflect.String:
		b.WriteString(strconv.Quote(v.String()))
	case reflect.Slice, reflect.Array:
		if v.Kind() == reflect.Slice && v.IsNil() {
			b.WriteString("null")
			return
		}
		if v.Type().Elem().Kind() == reflect.Uint8 {
			bs := make([]byte, v.Len())
			reflect.Copy(reflect.ValueOf(bs), v)
			b.WriteString("b:")
			b.WriteString(hex.EncodeToString(bs))
			return
		}
		b.WriteByte('[')
		for i := 0; i < v.Len(); i++ {
			if i > 0 {
				b.WriteByte(',')
			}
			val(b, v.Index(i), depth+1)
		}
		b.WriteByte(']')
	case reflect.Map:
		if v.IsNil() {
			b.WriteString("null")
			return
		}
		keys := v.MapKeys()
		ks := make([]string, len(keys))
		m := make(map[string]reflect.Value, len(keys))
		for i, k := range keys {
			var kb strings.Builder
			val(&kb, k, depth+1)
			ks[i] = kb.String()
			m[ks[i]] = v.MapIndex(k)
		}
		sort.Strings(ks)
		b.WriteByte('{')
		for i, k := range ks {
			if i > 0 {
				b.WriteByte(',')
			}
			b.WriteString(k)
			b.WriteByte(':')
			val(b, m[k], depth+1)
		}
		b.WriteByte('}')
	case reflect.Struct:
		t := v.Type()
		b.WriteString(t.Name())
		b.WriteByte('(')
		first := true
		for i := 0; i < v.NumField(); i++ {
			if !t.Field(i).IsExported() {
				continue
			}
			if !first {
				b.WriteByte(',')
			}
			first = false
			b.WriteString(t.Field(i).Name)
			b.WriteByte('=')
			val(b, v.Field(i), depth+1)
		}
		b.WriteByte(')')
	default:
		fmt.Fprintf(b, "<%s>", v.Kind())
	}
}

// Payload renders args/kwargs treating nil and empty as equal at top level.
func Payload(args wamp.List, kw wamp.Dict) string {
	a, k := "[]", "{}"
	if len(args) != 0 {
		a = Val(args)
	}
	if len(kw) != 0 {
		k = Val(kw)
	}
	return a + k
}

// Dict renders a dict with nil ≡ empty.
func Dict(d wamp.Dict) string {
	if len(d) == 0 {
		return "{}"
	}
	return Val(d)
}

// List renders a list with nil ≡ empty.
func List(l wamp.List) string {
	if len(l) == 0 {
		return "[]"
	}
	return Val(l)
}

// Msg renders a whole message: TYPE(field=value,...), with top-level nil
// List/Dict fields equal to empty ones.
func Msg(m wamp.Message) string {
	if m == nil {
		return "<nil>"
	}
	v := reflect.ValueOf(m)
	if v.Kind() == reflect.Pointer {
		if v.IsNil() {
			return "<nil " + m.MessageType().String() + ">"
		}
		v = v.Elem()
	}
	var b strings.Builder
	b.WriteString(m.MessageType().String())
	b.WriteByte('(')
	t := v.Type()
	for i := 0; i < v.NumField(); i++ {
		if i > 0 {
			b.WriteByte(',')
		}
		b.WriteString(t.Field(i).Name)
		b.WriteByte('=')
		f := v.Field(i)
		switch f.Kind() {
		case reflect.Map, reflect.Slice:
			if f.Len() == 0 {
				if f.Kind() == reflect.Map {
					b.WriteString("{}")
				} else {
					b.WriteString("[]")
				}
				continue
			}
		}
		val(&b, f, 1)
	}
	b.WriteByte(')')
	return b.String()
}

// MsgF renders a message like Msg but with every number rendered as the
// nearest double (used where integers beyond 2^53 stand for floats).
func MsgF(m wamp.Message) string {
	asDouble = true
	defer func() { asDouble = false }()
	return Msg(m)
}

var asDouble bool // only toggled by MsgF from single-threaded pure checks

// Num extracts a number from any numeric Go kind as float64 plus exact
// integer value when integral.
func Num(v any) (i int64, u uint64, f float64, kind byte) {
	rv := reflect.ValueOf(v)
	if !rv.IsValid() {
		return 0, 0, 0, 0
	}
	switch rv.Kind() {
	case reflect.Int, reflect.Int8, reflect.Int16, reflect.Int32, reflect.Int64:
		return rv.Int(), 0, float64(rv.Int()), 'i'
	case reflect.Uint, reflect.Uint8, reflect.Uint16, reflect.Uint32, reflect.Uint64:
		return 0, rv.Uint(), float64(rv.Uint()), 'u'
	case reflect.Float32, reflect.Float64:
		return 0, 0, rv.Float(), 'f'
	}
	return 0, 0, 0, 0
}

// AsID converts any numeric representation of an integral value in [0, 2^63)
// to uint64. ok is false for non-numbers and non-integral floats.
func AsID(v any) (uint64, bool) {
	i, u, f, k := Num(v)
	switch k {
	case 'i':
		if i < 0 {
			return 0, false
		}
		return uint64(i), true
	case 'u':
		return u, true
	case 'f':
		if f < 0 || f != math.Trunc(f) || f >= 9.2e18 {
			return 0, false
		}
		return uint64(f), true
	}
	return 0, false
}

// AsStr returns the string value of string-kinded values (string, wamp.URI).
func AsStr(v any) (string, bool) {
	rv := reflect.ValueOf(v)
	if rv.IsValid() && rv.Kind() == reflect.String {
		return rv.String(), true
	}
	return "", false
}

// AsBool returns a bool.
func AsBool(v any) (bool, bool) {
	b, ok := v.(bool)
	return b, ok
}

// AsList converts any slice-kinded value (not []byte) to []any.
func AsList(v any) ([]any, bool) {
	rv := reflect.ValueOf(v)
	if !rv.IsValid() {
		return nil, false
	}
	if rv.Kind() == reflect.Interface {
		rv = rv.Elem()
	}
	if rv.Kind() != reflect.Slice && rv.Kind() != reflect.Array {
		return nil, false
	}
	if rv.Type().Elem().Kind() == reflect.Uint8 {
		return nil, false
	}
	out := make([]any, rv.Len())
	for i := range out {
		out[i] = rv.Index(i).Interface()
	}
	return out, true
}

// AsDict converts any map with string-kinded keys to map[string]any.
func AsDict(v any) (map[string]any, bool) {
	rv := reflect.ValueOf(v)
	if !rv.IsValid() || rv.Kind() != reflect.Map {
		return nil, false
	}
	out := make(map[string]any, rv.Len())
	for _, k := range rv.MapKeys() {
		kk := k
		if kk.Kind() == reflect.Interface {
			kk = kk.Elem()
		}
		if kk.Kind() != reflect.String {
			return nil, false
		}
		out[kk.String()] = rv.MapIndex(k).Interface()
	}
	return out, true
}

// Clone makes a deep copy of a WAMP value tree (lists, dicts, byte slices).
func Clone(v any) any {
	switch x := v.(type) {
	case wamp.Dict:
		if x == nil {
			return x
		}
		o := make(wamp.Dict, len(x))
		for k, e := range x {
			o[k] = Clone(e)
		}
		return o
	case map[string]any:
		if x == nil {
			return x
		}
		o := make(map[string]any, len(x))
		for k, e := range x {
			o[k] = Clone(e)
		}
		return o
	case wamp.List:
		if x == nil {
			return x
		}
		o := make(wamp.List, len(x))
		for i, e := range x {
			o[i] = Clone(e)
		}
		return o
	case []any:
		if x == nil {
			return x
		}
		o := make([]any, len(x))
		for i, e := range x {
			o[i] = Clone(e)
		}
		return o
	case []byte:
		return append([]byte(nil), x...)
	}
	return v
}
