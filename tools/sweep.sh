#!/bin/bash
# Runs every check (given tier, default quick) at the given seeds, one after the other; prints one line per run.
# usage: tools/sweep.sh "1 2 3" [quick|thorough] [props...]
cd /verif
seeds=${1:-"1 2 3"}; tier=${2:-quick}; shift; shift
props="$@"; [ -z "$props" ] && props=$(python3 -c "import json;print(' '.join(c['property_id'] for c in json.load(open('/verif/MANIFEST.json'))['checks']))")
for s in $seeds; do for p in $props; do
  out=$(VERIF_SEED=$s ./vcheck run $p --tier $tier 2>&1); rc=$?
  echo "seed=$s $p rc=$rc $(echo "$out" | tail -1 | cut -c1-150)"
  [ $rc != 0 ] && echo "$out" | grep -E "rule=|INCONCLUSIVE|KNOWN" | head -5 | cut -c1-300
done; done
