#!/bin/bash
# Applies a seeded mutant to /repo, runs the given property checks (quick), reverts. Usage: try_mutant.sh seeded/<id> C01 [C02 ...]
set -u
d=$(realpath "$1"); shift
cd /repo && git diff --quiet || { echo "/repo has local modifications; refusing"; exit 2; }
git -C /repo apply "$d/patch.diff" || { echo "$(basename $d): patch does not apply"; exit 2; }
trap 'git -C /repo checkout -- . ' EXIT
cd /verif
for p in "$@"; do
  out=$(./vcheck run $p ${TIER:+--tier $TIER} 2>&1); rc=$?
  echo "$(basename $d) $p exit=$rc $(echo "$out" | grep -c '^VIOLATION') violation line(s): $(echo "$out" | grep -m1 -A1 '^VIOLATION' | tail -1 | cut -c1-220)"
done
