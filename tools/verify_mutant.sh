#!/bin/bash
# Confirms a seeded mutant in a scratch worktree: patch applies on /repo HEAD, repo suite passes with it,
# the demonstration fails with it and passes without it. Usage: verify_mutant.sh seeded/<id>
# Prints one line: <id> apply=ok suite=pass demo_with=fail demo_without=pass
set -u
d=$(realpath "$1"); id=$(basename "$d")
wt=/tmp/vm-$id-$$
export PATH=/tmp/gobin:$PATH
export GOFLAGS=-mod=mod GOPROXY=off GOSUMDB=off GOTOOLCHAIN=local
git -C /repo worktree add -q --detach "$wt" HEAD || { echo "$id worktree failed"; exit 2; }
trap 'git -C /repo worktree remove --force "$wt" >/dev/null 2>&1' EXIT
cd "$wt"
if ! git apply "$d/patch.diff" 2>/tmp/vm-$id.err; then echo "$id apply=FAILED $(head -2 /tmp/vm-$id.err | tr '\n' ' ')"; exit 1; fi
suite=pass
NS="unshare -n sh -c"
$NS "ip link set lo up; go1.26 test -vet=off -count=1 -timeout 180s ./..." >/tmp/vm-$id.suite 2>&1 || suite=FAIL
if [ $suite = FAIL ]; then $NS "ip link set lo up; go1.26 test -vet=off -count=1 -timeout 180s ./..." >/tmp/vm-$id.suite2 2>&1 && suite=pass-on-retry; fi
copy_to=$(python3 -c "import json;print(json.load(open('$d/meta.json'))['demo']['copy_to'])")
run=$(python3 -c "import json;print(json.load(open('$d/meta.json'))['demo']['run'])")
demo=$(ls "$d" | grep -E 'demo.*\.go$' | head -1)
mkdir -p /tmp/gobin; ln -sf $(which go1.26) /tmp/gobin/go; mkdir -p "$(dirname "$copy_to")"; cp "$d/$demo" "$copy_to"
with=pass; (timeout 300 bash -c "$run") >/tmp/vm-$id.with 2>&1 || with=fail
git apply -R "$d/patch.diff"
without=pass; (timeout 300 bash -c "$run") >/tmp/vm-$id.without 2>&1 || without=fail
echo "$id apply=ok suite=$suite demo_with=$with demo_without=$without"
