#!/bin/sh
# Runs the repository's own suite with the verif guard OFF; prints only failures.
cd /repo && GOFLAGS=-mod=mod GOPROXY=off go test -vet=off -count=1 ./... 2>&1 | grep -E "^(--- FAIL|FAIL|panic:|ok  )" | grep -v "^ok" ; echo "suite done (lines above, if any, are failures)"
