#!/usr/bin/env python3
"""Regenerates /verif/MANIFEST.json from the table below (run after adding a check)."""
import json, os, subprocess
ROOT = os.path.dirname(os.path.dirname(os.path.abspath(__file__)))

HOOK_COMMITS = ["2c68a33", "da4e8eb"]

# id -> (engine, level, technique, level text, level note)
CHECKS = {
 "C16": ("bubble", "exploration",
         "real client.Client against a scripted router peer in a bubble; replies carry a token derived from the request id; adversarial reply order/duplicates/foreign ids; delays placed at the client's timers in virtual time; API-boundary oracles",
         "runtime monitor at the client API boundary: 1-48 goroutines use one client concurrently (Subscribe/Unsubscribe/Register/Unregister/acknowledged Publish/Call/Call with progress/Call with cancelled or expiring context); the scripted router answers in permuted order, with duplicates and replies for ids nobody waits for, at 0, T/2, T-1ms, T, T+1ms relative to the response timeout and the contexts' deadlines (the tie is a real race between the timer and the receive goroutine inside the bubble); oracles by token equality and virtual timestamps: own reply and no other, success iff replied before the timeout, progress in order and none after return, exactly one CANCEL with the configured mode and the context's error; then INVOCATION/INTERRUPT/EVENT sequences with duplicate and stale ids: one handler run and one YIELD/ERROR per invocation, context cancelled on INTERRUPT, serial in-order event handlers; receive-loop-blocked detector, Close returns, no goroutine left",
         "CallProgressive's sender side (progressive call invocations driven by the caller) is only exercised through Call; the scripted router always answers CANCEL (an unanswered CANCEL legitimately yields the reply-timeout error instead of the context's)"),
 "C17": ("bubble", "exploration",
         "real client.Client against a hostile scripted router in a bubble; hostile value pool in every field/detail/argument, optional serializer round trip for wire types; liveness probe after every burst; worker crash attribution by the driver",
         "runtime monitor: after a normal setup (3 procedures, 2 subscriptions) and with 3-6 API calls left pending, the router sends bursts of 20-40 hostile messages (all 24 message types, templates with hostile values, payload-passthru details of every type, ids of pending requests/live invocations/unknown, duplicate and triplicate invocations, progressive chunks, wrong-type and duplicate replies placed at 0..3T around the client's timers; every 4th case the router never answers CANCEL and streams RESULTs for the cancelled request for 12 T); after each burst a new Subscribe answered properly must succeed and a valid INVOCATION must be answered (the client keeps processing), every API call must have returned, the receive goroutine must be back in its select; endings by GOODBYE/ABORT/drop (also mid-burst), Close answered/unanswered/with calls pending: Done() closed, later API calls return, Close returns, handler entries == exits, no client goroutine one virtual hour later; a panic in any client goroutine kills the worker and is attributed to the case",
         "handlers used are well-behaved (return when their context ends, return promptly on progressive chunks); Close concurrent with API calls that have not yet sent their request is not exercised (the property speaks of router-side inputs); socket transports under the client are covered by C15, here messages are only round-tripped through the serializers"),
 "C15": ("bubble", "exploration",
         "incremental wire-stream checker on the puppet side, exhaustive rawsocket handshake tables (server side in the bubble, client side over loopback TCP), size-boundary/PING/cut/fault workloads, transport-differential replay",
         "runtime monitor: every byte the router writes to a rawsocket puppet is parsed by an independent incremental frame parser (malformed frame, frame above the announced limit, undecodable payload, loss or reordering are violations); the handshake is checked against a reference for every hello/reply of a 3x256x4 set (exhaustive); sizes limit-1/limit/limit+1 in both directions, PING/PONG during traffic, reserved frame types, a cut at every byte offset and websocket fake-connection faults must leave other sessions served; a generated scenario replayed over all 7 attachments must give the same canonical per-session observations",
         "gorilla's own framing, TLS, compression and the HTTP upgrade are not exercised (the websocket peer is driven through a fake connection); the 512-byte client limit cannot carry a WELCOME and is only covered by the handshake table"),
 "C07": ("bubble", "exploration",
         "stalled-reader scenarios; zero-virtual-delay oracle for every reply and delivery to reading sessions, retry-period bound, backlog bound after resume, bubble deadlock detector, +3 min drain; concurrent closed-loop workload (churn + meta API + traffic, nobody stalled) with a completion oracle; live workload behind the real servers with a count bound on what is kept for a stalled client",
         "runtime monitor: sessions stop reading in every role (subscriber, meta subscriber, callee, caller) with small queues and socket buffers while readers exchange traffic; each reply/delivery to a reader must carry the virtual timestamp of its request (the quiescence point of the same instant), except for a callee that yielded to a blocked caller, which is held for at most the result-retry period; resumed sessions drain at most their queue bound; the bubble's all-blocked detector and a final drain decide freedom from wait cycles on the schedules produced; every 4th case runs 6-8 closed loops concurrently (register/unregister and subscribe/unsubscribe churn, meta API callers, publisher, caller) and requires every loop to complete; every 16th case uses the live engine (router.RawSocketServer / router.WebsocketServer on unix and TCP sockets with OutQueueSize 1/4/16/default, the project's client transports): the messages kept for a subscriber that stopped reading are counted after it resumes and bounded by the configured queue + messages in hand + socket buffers, while the publisher's acknowledged publications (closed loop) must all be acknowledged",
         "the router's own meta session counts as a callee for the documented yield-retry exception; exact queue accounting only for in-process stalled peers"),
 "C08": ("bubble", "exploration",
         "burst mode (no quiescence between concurrent senders) with unique (sender, counter) tokens; closed-loop callers and closed-loop register/unregister churn so that calls reach the dealer throughout; topics with event history; a caller blocked for 5 virtual seconds during progressive results; a real client.Client subscriber (ConnectLocal, SubscribeChan, channel capacity 0-2) with a reader stalling up to 3 x the response timeout; offline ordering/bracket/completeness checker over per-receiver logs",
         "runtime monitor: publishers, callers, reactive callees and churning subscribers/callees run concurrently over non-local transports with GOMAXPROCS varied; the per-receiver logs are checked offline for per-(publisher,topic,subscription) and per-(caller,callee) monotonicity, progressive-result order and the SUBSCRIBED/UNSUBSCRIBED and REGISTERED/UNREGISTERED brackets; what an application reads from a client.SubscribeChan channel behind a stalling reader must increase per publisher (OR8); evidence reports distinct interleavings seen",
         "schedules not produced are not covered; queues are sized so that legal overflow drops cannot look like reordering"),
 "C06": ("bubble", "fault_enumeration",
         "join storm at shutdown (30-150 clients sending HELLO as Close/RemoveRealm runs, GOMAXPROCS 1/2/4); a client on an application-provided unbuffered peer whose WELCOME is in flight at the shutdown; Close/RemoveRealm injected at every step boundary and inside every step of a script; returns / no panic for 2 virtual hours / GOODBYE-or-EOF / clean refusal of later attaches / no goroutine left / bystander realm served",
         "runtime monitor with fault enumeration: for each generated base script (calls with armed timers, publications, kills, a half-done handshake, a silent peer, a stalled subscriber with a tiny socket buffer) the shutdown is invoked at every step boundary and together with every step's message (exhaustive over those crash points for that script); the bubble's quiescence, deadlock and leak detection decide",
         "instants between two machine instructions are reached only statistically by the inside-step injections; evidence reports the number of injection points"),
 "C09": ("bubble", "exploration",
         "handshake reference predicate with the harness's own HMAC/PBKDF2/ed25519 verification; replayed transcripts; inertness and identity-field monitors",
         "runtime monitor: WELCOME is accepted only when the reference predicate holds for this very handshake (first message HELLO, realm existing or template-creatable, a client role, first configured offered method, response valid for the CHALLENGE just issued); refused peers must be inert (no reply, no event at the observer, session count unchanged) and disconnected; identity fields in WELCOME, on_join and wamp.session.get must equal what router and authenticator assigned, never smuggled HELLO details",
         "cryptographic unforgeability of HMAC-SHA256/ed25519 is trusted; a ticket is valid in every handshake by construction (I9); trusted in-process authid may come from HELLO (I10)"),
 "C10": ("bubble", "exploration",
         "generated decision-table authorizers evaluated by harness and router alike; denied steps: reply + no-effect oracle; allowed/rewritten steps: lock-step model of the authorizer-free router",
         "runtime monitor: the harness computes the authorizer's decision for every scripted message; denied messages must draw exactly the documented ERROR (none for unacknowledged PUBLISH) and nothing else may be observed by any session, catch-all or meta observer; allowed, rewritten and session-changing decisions are checked against the model that decides the router without an authorizer",
         "authorizers are pure functions of (message type, URI, authrole); side effects outside session details and message are not modelled"),
 "C11": ("bubble", "exploration",
         "same script in several realms with colliding ids; per-realm lock-step models with catch-all and meta observers; cross-realm attack steps; RemoveRealm at run time",
         "runtime monitor: every message observed by any session must be predicted by its own realm's model, so anything crossing a realm boundary is an unpredicted message; attack steps use session ids, invocation ids and URIs that are only valid in another realm; removing a realm must end exactly its sessions",
         "realm ids collide by construction (per-realm id generators), session ids are random"),
 "C20": ("bubble", "exploration",
         "lock-step event-history ring model; get_events/lookup queries from every transport and serializer",
         "runtime monitor: retained entries, filter selection, order, entry content and is_limit_reached of every get_events answer are compared with a reference ring that records the last N unrestricted matching publications independent of subscriber churn",
         "clock advanced in whole seconds so time filters have unambiguous answers; publication-id filters only name retained or formerly retained publications"),
 "C04": ("bubble", "exploration",
         "process-exit/panic/race oracle plus liveness probe of uninvolved sessions after every hostile step (bubble), under the race detector",
         "runtime monitor: hostile sessions send every message type in every session state with hostile values in every field/option/detail position and correlated multi-step recipes over all transports; after each step two uninvolved sessions must complete a pub/sub, RPC and meta exchange at quiescence and still be attached; a worker process death (panic, fatal error) is attributed to the logged case by the driver; data-race reports with nexus frames are violations of this property",
         "inputs never generated and resource exhaustion by sheer volume are not covered; live-socket stress is not part of this check"),
 "C05": ("bubble", "fault_enumeration",
         "departure injected at every step of a script in four ways; lock-step model across the departure + owner-goroutine table-size snapshot hook compared with the post-NewRouter baseline",
         "runtime monitor with fault enumeration: for each generated base script the end of a chosen session is injected after every step k and in each of four ways (exhaustive over (k, way) for that script); the model checks the departure effects, and after all sessions left and 3 virtual hours passed the hook snapshot of every realm/broker/dealer table must equal the baseline; churn rounds compare snapshots round over round",
         "Go heap growth is not judged; the snapshot hook reads sizes inside the owning goroutines (read-only)"),
 "C12": ("bubble", "exploration",
         "disclosure predicate via lock-step model plus independence monitors on delivered message objects (restricted twin publications, snapshot-at-receipt vs re-read, recipient-side mutation, meta output scan)",
         "runtime monitor: identity keys present iff the predicate holds with true values; the same publication restricted to one recipient must give that recipient identical details; in-process message objects are re-read after quiescence and after further traffic and after another recipient mutated its copy; on_join and wamp.session.get are scanned for transport.auth",
         "private copies are judged at the top level of details, arguments and keyword arguments (I12); sender/recipient aliasing of call payloads is not judged"),
 "C14": ("pure", "exploration",
         "runtime round-trip / cross-format / shape monitors and hostile-byte monitors with an independent generic decode (checkptr build), the first 12 (thorough: 120) cases repeated under an AddressSanitizer build (go test -asan)",
         "runtime monitor on the real serializers: generated messages of all 24 types are serialised and deserialised by each format and compared in a canonical form, the encoded list shape is checked by an independent generic decode, and hostile byte strings must give error xor message, never a panic, and a message only if the bytes are generically a list headed by a known code with kind-compatible fields",
         "third-party codec trusted beyond agreement of its three handles; JSON has no binary type; integral floats beyond 2^53 compared as doubles (known finding for >= 2^63)"),
 "C18": ("bubble", "exploration",
         "lock-step session/registration/subscription reference model predicting every meta event and meta answer",
         "runtime monitor: after every step of generated churn/kill/testament histories a rotating observer calls a meta procedure and the answer is compared with the model; every meta event (topic, arguments, receivers incl. exact, prefix and wildcard meta subscribers, order on_create<on_subscribe etc.) is predicted exactly; unpredicted meta events are violations",
         "sessions ended by one kill request leave in arbitrary order: attribution of on_delete among them and what victims still see is not judged (I18 for on_unsubscribe/on_unregister of departures)"),
 "C01": ("bubble", "exploration",
         "lock-step reference-model monitor (pubsub model) over per-session receive logs at synctest quiescence",
         "runtime monitor: generated pub/sub histories are executed against the real router inside a virtual-time bubble; after every step, at a true quiescence point, every session's receive log (incl. a catch-all observer) is compared as a multiset with the prediction of an independent pubsub model (matching, exclusion, filters, ids, payload, errors); held on the generated histories only",
         "reference model harness/model/pubsub.go + uriref.go; puppets use the nexus serializers on their side of network transports; generators stay in the decided domain (I8)"),
 "C02": ("bubble", "exploration",
         "lock-step per-call reply automaton + RPC reference model under virtual time",
         "runtime monitor: generated RPC histories (cancel modes, timeouts, late/foreign/duplicate answers, departures, kills) in lock-step; per (caller,id) automaton 'progress* then exactly one final, nothing after, nothing foreign'; liveness restated as: at the quiescent point after the trigger (clock finally advanced 3 h) the final reply is in the caller's log",
         "unbounded eventually restated as bounded progress at quiescence; callers keep reading"),
 "C03": ("bubble", "exploration",
         "lock-step RPC routing reference model (best match, invocation policy, ids, payload, ownership)",
         "runtime monitor: generated registration/call histories in lock-step against a routing model that is nondeterministic exactly where the statement is (which wildcard, random member, rotation start after a membership change)",
         "round-robin judged by the window rule (k distinct members then cyclic) on constant membership; distribution of random not judged"),
 "C13": ("bubble", "exploration",
         "lock-step cancel/timeout state-machine model with exact virtual timestamps",
         "runtime monitor: cancel modes and router-side timeouts checked against the documented state machine; the virtual clock is stopped 1 ms before every deadline (silence required) and exactly on it (timeout ERROR and INTERRUPT required with timestamp == deadline)",
         "virtual time of testing/synctest stands for real time; ties between a deadline and an answer are avoided by construction in deciding runs"),
 "C19": ("pure", "exploration",
         "runtime differential monitoring against reference functions (bounded-exhaustive + random inputs)",
         "differential runtime monitor: the real ValidURI/PrefixMatch/WildcardMatch/IDGen/GlobalID/AsID/IsNewRecvID are executed on bounded-exhaustive and random inputs and every result is compared with reference functions written from the statement; exhaustive for short strings over a 10-symbol alphabet and for id pairs near both boundaries, sampled beyond",
         "reference functions in harness/model/uriref.go are the trusted base; whitespace is the five ASCII characters of the WAMP regexes (I7)"),
}

NOT_APPLICABLE = {
}

ENGINES = [
 {"name": "bubble", "path": "harness/sim", "kind_free_text": "real router/client inside a testing/synctest bubble (virtual time, quiescence oracle, deadlock and leak detection), scripted puppet sessions over in-process, rawsocket and websocket transports built from channels; lock-step reference-model monitors; race detector on"},
 {"name": "pure", "path": "harness/checks", "kind_free_text": "function-level differential monitors against independently written reference functions, run under the race detector (checkptr)"},
]

def main():
    props = [json.loads(l)["id"] for l in open(os.path.join(ROOT, "properties.jsonl"))]
    checks = []
    for pid in props:
        if pid not in CHECKS:
            continue
        eng, level, tech, text, note = CHECKS[pid]
        checks.append({
            "property_id": pid,
            "quick_cmd": "./vcheck run %s --tier quick" % pid,
            "thorough_cmd": "./vcheck run %s --tier thorough" % pid,
            "evidence_file": "evidence/%s.json" % pid,
            "replay_cmd_template": "./vcheck replay {path}",
            "engine": eng,
            "level_claimed": {"category": level, "text": text, "design_ref": "DESIGN.md §4 " + pid},
            "level_note": note,
            "technique": tech,
        })
    na = []
    for pid in props:
        if pid in CHECKS:
            continue
        na.append({"property_id": pid, "reason": NOT_APPLICABLE.get(pid, "check not built yet (work in progress; the technique applies, see DESIGN.md §4 %s)" % pid)})
    for e in ENGINES:
        e["serves_properties"] = [p for p in props if p in CHECKS and CHECKS[p][0] == e["name"]]
    m = {
        "version": 1,
        "setup_cmd": "./vcheck setup",
        "hooks": {
            "guard": "verif",
            "enable": "go1.26 test -c -race -tags verif (the harness module replaces github.com/gammazero/nexus/v3 with /repo, so every check rebuilds from /repo's working tree)",
            "baseline_off_cmd": "cd /repo && GOFLAGS=-mod=mod GOPROXY=off go test -vet=off -count=1 ./...",
            "source_commits": HOOK_COMMITS,
            "add_only": True,
        },
        "engines": ENGINES,
        "checks": checks,
        "not_applicable": na,
        "notes": "Exit codes of every check: 0 held on what was observed, 1 violation (VIOLATION line), 3 inconclusive. Known findings: known_findings.json.",
    }
    json.dump(m, open(os.path.join(ROOT, "MANIFEST.json"), "w"), indent=1)
    print("MANIFEST.json: %d checks, %d not_applicable" % (len(checks), len(na)))

if __name__ == "__main__":
    main()
