#!/usr/bin/env python3
import json,sys
pid, n = sys.argv[1], sys.argv[2]
wt = sys.argv[3] if len(sys.argv)>3 else "/tmp/wt-"+pid
t=open('/verif/tools/mutant_prompt.txt').read()
for l in open('/verif/properties.jsonl'):
    p=json.loads(l)
    if p['id']==pid:
        print(t.replace('{WT}',wt).replace('{ID}',pid).replace('{TITLE}',p['title']).replace('{STATEMENT}',p['statement']).replace('{QUANT}',p['quantifier']['text']).replace('{N}',n))
