#!/bin/bash
# Runs every seeded mutant against its own property's quick check (plus the extra checks listed in EXTRA),
# one at a time (the checks build from /repo's working tree). Appends to seeded/MATRIX.log.
# usage: tools/matrix.sh [mutant-id ...]   (default: all)
set -u
cd /verif
declare -A EXTRA=( [C11-1]="C06" [C03-3]="C07" [C13-1]="C07" [C04-3]="C07" [C08-3]="C01" [C05-1]="C02" )
ids="$@"
[ -z "$ids" ] && ids=$(ls seeded | grep -E '^C[0-9]+-[0-9]+$' | sort -V)
cd /repo && git diff --quiet || { echo "/repo has local modifications; refusing"; exit 2; }
cd /verif
for id in $ids; do
  d=/verif/seeded/$id
  prop=${id%%-*}
  if ! git -C /repo apply --check $d/patch.diff 2>/dev/null; then
    echo "$(date +%H:%M:%S) $id $prop patch-does-not-apply" | tee -a seeded/MATRIX.log; continue
  fi
  git -C /repo apply $d/patch.diff
  for p in $prop ${EXTRA[$id]:-}; do
    out=$(./vcheck run $p 2>&1); rc=$?
    sig=$(echo "$out" | grep -m1 -A1 '^VIOLATION' | tail -1 | sed 's/ case=.*//' | cut -c1-200)
    echo "$(date +%H:%M:%S) $id $p exit=$rc nviol=$(echo "$out" | grep -c '^VIOLATION') $sig" | tee -a seeded/MATRIX.log
  done
  git -C /repo checkout -- .
done
