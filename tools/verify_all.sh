#!/bin/bash
# verify the given seeded mutants, 3 at a time; results appended to /verif/seeded/VERIFY.log
cd /verif
printf '%s\n' "$@" | xargs -P 2 -I{} tools/verify_mutant.sh {} >> seeded/VERIFY.log 2>&1
